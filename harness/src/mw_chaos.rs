//! C19: the real `ChaosLayer` (built through its public builder) over the scripted inner service.
//!
//! header: `chaos seed=<u64> [erate=<spec>] lrate=<spec> min_us=<µs> max_us=<µs> [order=<0|1>] [handles=<k>]`
//!   `min_us` / `max_us`: the bounds given to the builder, any `Duration` in whole microseconds — from 0 to hours;
//!   the layer compares them in whole milliseconds (`Duration::as_millis`, truncating), and so do mirror and model
//!   rate spec: `T<n>`   = n / 2^53 (n ≤ 2^53; every such value is an exact f64)
//!              `b<bits>` = the f64 with these bits (clamped to [0,1] like the builder does)
//!              `d<i>[+1|-1]` = the i-th f64 of `StdRng::seed_from_u64(seed)` (± one step of 2^-53):
//!                              puts the rate exactly on / next to a roll the layer will see
//!   no `erate` key = latency-only layer (`NoErrorInjection`); `order=1` = `.error_fn().error_rate()`
//!   `handles=k`: which handle of the service serves a request. 0 (default) = a fresh clone of the
//!   pristine service per request; k >= 1 = k clones taken up front, request c goes to handle c mod k
//!   `ready=<script>`: the wrapped service of instance A is the STRICT scripted service (`Inner::strict`): readiness is
//!   per instance (a clone is not ready; a call uses the readiness up), successive `poll_ready` calls reaching it (on
//!   any instance) are answered from the script ('r' ready, 'p' pending, 'e' error; exhausted: ready), and every
//!   `inner_call` line says whether the instance called had reported ready since its last call (`ready=1|0`).
//!   Without the key: the always-ready service that does not log readiness (as before).
//!
//! `arrive c … [via=<mode>] [tvia=<mode>]`: how the caller obtains the handle it calls — all legitimate Tower usage,
//! all must behave alike (the modes of `mw_bulkhead.rs`). The "template" is the handle the request is routed to
//! (`handles=0`: the pristine service; k >= 1: kept clone c mod k; the twin: its one handle).
//!   `clone`      clone the template, ready the clone, call the clone (default of instance A with `handles=0`)
//!   `readyclone` ready the template first, then clone it, ready the clone, call the clone (the template stays
//!                ready-but-uncalled: a handle is cloned between `poll_ready` and `call`)
//!   `swap`       the `mem::replace` idiom: ready the template, leave a fresh clone in its place, call the readied one
//!   `template`   ready and call the template itself (default of instance A with `handles=k`, and of the twin)
//! `via` is the mode of instance A, `tvia` that of the twin (whose wrapped service is silent but strict too: a call on
//! an instance that never reported ready is noted as `#unready-b c`). Every `poll_ready` answer of the layer during an
//! arrival of instance A and every answer its wrapped service gave meanwhile are noted as `#rdy c via=<mode>
//! layer=<answers> inner=<answers>` (the layer forwards readiness). A request refused by `poll_ready` (pending or
//! error) is not made: `result c notready`.
//!
//! No hook into the repository: the adapter holds a mirror `StdRng::seed_from_u64(seed)`. In the
//! first poll of a call future it draws speculatively on clones of the mirror, in the order the
//! layer draws (f64, f64, range), and reports the draws to the model (`@r1 @r2 @g1 @g2`, exact
//! integers). The branch the layer really took is classified through the layer's own public
//! event callbacks, and the mirror is advanced by the draws that branch consumes. The log
//! contains observables only: inner calls (with their virtual instants) and results.
//!
//! Determinism is also checked directly, twice, without the model:
//!  * twin: every request is given to a second, equally seeded layer instance (over a silent inner
//!    service) polled in the same step, but driven differently: the twin is ONE handle that is never
//!    cloned (unless `tvia=` asks for another caller mode), and its `call()` happens only at the first poll (instance A: clones, `call()` at
//!    `arrive`). Same seed + same order of requests must give the same decisions whichever clone
//!    serves a request and whenever the future was created; any difference in behaviour is logged as
//!    `twin-mismatch`, and the decisions the two instances report for a request (`#obs` / `#obsb`) are compared.
//!  * stream: a free-running oracle generator `StdRng::seed_from_u64(seed)`, never synchronised with
//!    the layer, yields "decision i of the seed's stream" for the i-th first poll (`#pred c <d>`); what
//!    the layer really decided for that request is taken from its event callbacks (`#obs c <d>`).
//!
//! `manual dropsvc`: the caller drops EVERY handle it holds — of instance A the pristine service, the k kept clones
//! and the layer, of the twin its only handle and its layer — while call futures may be alive, polled or not yet
//! polled (`let f = svc.call(r); drop(svc); f.await`, `svc.oneshot(r)`). Requests that arrived before still get
//! their decision at their first poll, in first-poll order, from the seed's stream: instance A made their `call()`
//! at `arrive`; the twin, whose `call()` is otherwise made at the first poll, makes the `call()`s of the requests
//! not yet polled (in arrival order) just before it lets go of its handle. Mirror, oracle and callbacks live in
//! what the futures hold and keep working. Later `arrive`s are answered `noop` (nothing left to make a call on).
//!
//! `manual stress threads=<N> calls=<K>`: real-OS-thread stress search (NOT a proof) for the part no
//! single-threaded schedule can reach: N threads, each with a clone of one freshly built, equally
//! configured and seeded service, make K calls in total (first poll only). Oracles: the property
//! clauses themselves — see `stress`.
use crate::world::*;
use futures::future::BoxFuture;
use rand::rngs::StdRng;
use rand::{Rng, SeedableRng};
use std::any::Any;
use std::cell::{Cell, RefCell};
use std::collections::{BTreeMap, HashMap, VecDeque};
use std::future::Future;
use std::pin::Pin;
use std::rc::Rc;
use std::sync::atomic::{AtomicBool, AtomicU64, Ordering};
use std::sync::{Arc, Mutex};
use std::task::{Context, Poll, Waker};
use std::time::Duration;
use tower::{Layer, Service};
use tower_resilience_chaos::ChaosLayer;

const P53: u64 = 1 << 53;
type Fut = BoxFuture<'static, Result<Resp, IErr>>;
type MakeFut = Box<dyn FnMut(Req, Via) -> Option<Fut>>;

/// how the caller obtains the handle it calls (see the module documentation)
#[derive(Clone, Copy, Debug, PartialEq, Eq)]
enum Via {
    Clone,
    ReadyClone,
    Swap,
    Template,
}
impl Via {
    fn parse(s: Option<&str>, default: Via) -> Via {
        match s {
            Some("clone") => Via::Clone,
            Some("readyclone") => Via::ReadyClone,
            Some("swap") => Via::Swap,
            Some("template") => Via::Template,
            _ => default,
        }
    }
    fn name(self) -> &'static str {
        match self {
            Via::Clone => "clone",
            Via::ReadyClone => "readyclone",
            Via::Swap => "swap",
            Via::Template => "template",
        }
    }
}

thread_local! {
    /// `poll_ready` answers during the current arrival of instance A: of the layer / of its wrapped service
    static RDY_LAYER: RefCell<String> = RefCell::new(String::new());
    static RDY_INNER: RefCell<String> = RefCell::new(String::new());
}
fn rdy_char<E>(r: &Poll<Result<(), E>>) -> char {
    match r {
        Poll::Ready(Ok(())) => 'r',
        Poll::Ready(Err(_)) => 'e',
        Poll::Pending => 'p',
    }
}
type Hook0 = Box<dyn Fn() + Send + Sync>;
type HookD = Box<dyn Fn(Duration) + Send + Sync>;
type Calls = Arc<Mutex<HashMap<usize, u64>>>;

/// `⌈rate·2^53⌉` for a rate in [0,1], from the bits of the f64 (exact integer arithmetic)
fn threshold(rate: f64) -> u64 {
    if !(rate > 0.0) {
        return 0;
    }
    if rate >= 1.0 {
        return P53;
    }
    let bits = rate.to_bits();
    let exp = ((bits >> 52) & 0x7ff) as i64;
    let mant = bits & ((1u64 << 52) - 1);
    let (m, e) = if exp == 0 { (mant, -1074i64) } else { (mant | (1u64 << 52), exp - 1075) };
    let sh = e + 53; // rate·2^53 = m·2^sh
    if sh >= 0 {
        ((m as u128) << sh) as u64
    } else {
        let s = (-sh) as u32;
        if s >= 64 {
            1
        } else {
            (((m as u128) + (1u128 << s) - 1) >> s) as u64
        }
    }
}

fn parse_rate(spec: &str, seed: u64) -> f64 {
    if let Some(n) = spec.strip_prefix('T') {
        let n: u64 = n.parse().unwrap_or(0);
        return n.min(P53) as f64 / P53 as f64;
    }
    if let Some(b) = spec.strip_prefix('b') {
        let b: u64 = b.parse().unwrap_or(0);
        let x = f64::from_bits(b);
        return if x.is_nan() { 0.0 } else { x.clamp(0.0, 1.0) };
    }
    if let Some(d) = spec.strip_prefix('d') {
        let (idx, off): (&str, i64) = if let Some(i) = d.strip_suffix("+1") {
            (i, 1)
        } else if let Some(i) = d.strip_suffix("-1") {
            (i, -1)
        } else {
            (d, 0)
        };
        let idx: usize = idx.parse().unwrap_or(0);
        let mut r = StdRng::seed_from_u64(seed);
        let mut x: f64 = r.random();
        for _ in 0..idx {
            x = r.random();
        }
        let n = (x * P53 as f64) as i64 + off;
        return n.clamp(0, P53 as i64) as f64 / P53 as f64;
    }
    0.0
}

#[derive(Clone)]
struct Params {
    seed: u64,
    erate: Option<f64>,
    lrate: f64,
    min: Duration,
    max: Duration,
    order: u64,
    handles: usize,
}
impl Params {
    fn min_ms(&self) -> u64 {
        self.min.as_millis() as u64
    }
    fn max_ms(&self) -> u64 {
        self.max.as_millis() as u64
    }
    fn et(&self) -> u64 {
        self.erate.map(threshold).unwrap_or(0)
    }
    fn lt(&self) -> u64 {
        threshold(self.lrate)
    }
}

/// one decision of the layer for one request
#[derive(Clone, Copy, Debug, PartialEq, Eq, PartialOrd, Ord)]
enum Dec {
    Error,
    Lat(u64),
    Pass,
}
impl std::fmt::Display for Dec {
    fn fmt(&self, f: &mut std::fmt::Formatter<'_>) -> std::fmt::Result {
        match self {
            Dec::Error => write!(f, "error"),
            Dec::Lat(ms) => write!(f, "lat:{}", ms),
            Dec::Pass => write!(f, "pass"),
        }
    }
}

/// The property's "function of the seed and the order of requests", stated once more on the harness
/// side for the oracle generator: the next decision of the stream of `rng` (exact integer comparison
/// of 53-bit numerators with the thresholds; draws in the documented order roll, roll, range). Advances
/// `rng` by exactly the draws of that decision.
fn decide_next(rng: &mut StdRng, et: u64, lt: u64, lo: u64, hi: u64) -> Dec {
    let mut e_roll = P53;
    if et > 0 {
        let x: f64 = rng.random();
        e_roll = (x * P53 as f64) as u64;
    }
    if e_roll < et {
        return Dec::Error;
    }
    if lt > 0 {
        let x: f64 = rng.random();
        if ((x * P53 as f64) as u64) < lt {
            return Dec::Lat(if hi > lo { rng.random_range(lo..=hi) } else { lo });
        }
    }
    Dec::Pass
}

/// records the instant of the inner call per caller, then delegates
#[derive(Clone)]
struct Tap<S> {
    inner: S,
    calls: Calls,
    /// instance A: note every readiness answer of the wrapped service (`RDY_INNER`)
    trace: bool,
}
impl<S: Service<Req>> Service<Req> for Tap<S> {
    type Response = S::Response;
    type Error = S::Error;
    type Future = S::Future;
    fn poll_ready(&mut self, cx: &mut Context<'_>) -> Poll<Result<(), S::Error>> {
        let r = self.inner.poll_ready(cx);
        if self.trace {
            RDY_INNER.with(|x| x.borrow_mut().push(rdy_char(&r)));
        }
        r
    }
    fn call(&mut self, req: Req) -> S::Future {
        self.calls.lock().unwrap().insert(req.c, now_ms());
        self.inner.call(req)
    }
}

/// inner service of the twin instance: answers at once, logs nothing, consumes no serial. Always ready when asked,
/// but strict: readiness is per instance (a clone is not ready, a call uses the readiness up); a call on an instance
/// that has not reported ready since its last call is noted (`#unready-b c`)
struct Quiet {
    ready: bool,
}
impl Clone for Quiet {
    fn clone(&self) -> Quiet {
        Quiet { ready: false }
    }
}
impl Service<Req> for Quiet {
    type Response = Resp;
    type Error = IErr;
    type Future = std::future::Ready<Result<Resp, IErr>>;
    fn poll_ready(&mut self, _cx: &mut Context<'_>) -> Poll<Result<(), IErr>> {
        self.ready = true;
        Poll::Ready(Ok(()))
    }
    fn call(&mut self, req: Req) -> Self::Future {
        if !self.ready {
            log_raw(format!("#unready-b {}", req.c));
        }
        self.ready = false;
        std::future::ready(Ok(Resp { v: 0, c: req.c, tag: req.tag }))
    }
}

fn inject(req: &Req) -> IErr {
    IErr { kind: 99, v: req.tag }
}

/// what is done with the service once it is built (its type depends on the builder path taken)
trait Consumer<R> {
    /// `layer`: the layer the service was made with; kept alive as long as the handles are (a caller that keeps
    /// its layer around, e.g. to wrap further services), dropped with them
    fn take<Sv>(self, svc: Sv, layer: Box<dyn Any>) -> R
    where
        Sv: Service<Req, Response = Resp, Error = IErr, Future = Fut> + Clone + Send + 'static;
}

/// The caller of one instance: `k` = 0: the template is the pristine service; k >= 1: k clones taken up front,
/// the template of request c is handle c mod k. How the handle that is called is obtained from the template: `Via`.
/// `trace`: note the layer's readiness answers (`RDY_LAYER`; instance A).
struct Handles {
    k: usize,
    trace: bool,
}
impl Consumer<MakeFut> for Handles {
    fn take<Sv>(self, mut svc: Sv, layer: Box<dyn Any>) -> MakeFut
    where
        Sv: Service<Req, Response = Resp, Error = IErr, Future = Fut> + Clone + Send + 'static,
    {
        let (k, trace) = (self.k, self.trace);
        let mut hs: Vec<Sv> = (0..k).map(|_| svc.clone()).collect();
        Box::new(move |req, via| {
            let _keep = &layer;
            let t: &mut Sv = if k == 0 { &mut svc } else { &mut hs[req.c % k] };
            let ready = |s: &mut Sv| {
                let r = poll_ready_once(s);
                if trace {
                    RDY_LAYER.with(|x| x.borrow_mut().push(rdy_char(&r)));
                }
                matches!(r, Poll::Ready(Ok(())))
            };
            match via {
                Via::Clone => {
                    let mut h = t.clone();
                    if !ready(&mut h) {
                        return None;
                    }
                    Some(h.call(req))
                }
                Via::ReadyClone => {
                    if !ready(t) {
                        return None;
                    }
                    let mut h = t.clone();
                    if !ready(&mut h) {
                        return None;
                    }
                    Some(h.call(req))
                }
                Via::Swap => {
                    if !ready(t) {
                        return None;
                    }
                    let fresh = t.clone();
                    let mut readied = std::mem::replace(t, fresh);
                    Some(readied.call(req))
                }
                Via::Template => {
                    if !ready(t) {
                        return None;
                    }
                    Some(t.call(req))
                }
            }
        })
    }
}

struct Hooks {
    e: Hook0,
    l: HookD,
    p: Hook0,
}
/// Build one layer instance through the public builder and hand the service to `k`.
fn build<S, C, R>(inner: S, p: &Params, h: Hooks, k: C) -> R
where
    S: Service<Req, Response = Resp, Error = IErr> + Clone + Send + 'static,
    S::Future: Send + 'static,
    C: Consumer<R>,
{
    let Hooks { e, l, p: pt } = h;
    let b = ChaosLayer::builder()
        .name("verif")
        .on_error_injected(move || e())
        .on_latency_injected(move |d| l(d))
        .on_passed_through(move || pt())
        .latency_rate(p.lrate)
        .min_latency(p.min)
        .max_latency(p.max)
        .seed(p.seed);
    let f: fn(&Req) -> IErr = inject;
    match p.erate {
        None => {
            let l = b.build();
            k.take(l.layer(inner), Box::new(l))
        }
        Some(r) if p.order == 0 => {
            let l = b.error_rate(r).error_fn(f).build();
            k.take(l.layer(inner), Box::new(l))
        }
        Some(r) => {
            let l = b.error_fn(f).error_rate(r).build();
            k.take(l.layer(inner), Box::new(l))
        }
    }
}

/// the request whose future is being polled (instance A): the layer's callbacks carry no request
type Cur = Arc<Mutex<Option<usize>>>;

fn note(what: &str, cur: &Cur, d: Dec) {
    if let Some(c) = *cur.lock().unwrap() {
        log_raw(format!("{} {} {}", what, c, d));
    }
}

/// Hooks of the twin: only the decision it reports for the request being polled (`#obsb`).
fn hooks_b(cur: Cur) -> Hooks {
    let (c1, c2, c3) = (cur.clone(), cur.clone(), cur);
    Hooks {
        e: Box::new(move || note("#obsb", &c1, Dec::Error)),
        l: Box::new(move |d| note("#obsb", &c2, Dec::Lat(d.as_millis() as u64))),
        p: Box::new(move || note("#obsb", &c3, Dec::Pass)),
    }
}

/// Hooks of instance A: the mirror is advanced from the layer's event callbacks by exactly the draws
/// the reported branch consumes; the reported branch is also noted as the observed decision (`#obs`).
fn hooks_a(p: &Params, mirror: Arc<Mutex<StdRng>>, cur: Cur) -> Hooks {
    let has_e = p.erate.map(|r| r > 0.0).unwrap_or(false);
    let has_l = p.lrate > 0.0;
    let (lo, hi) = (p.min_ms(), p.max_ms());
    let (m1, m2, m3) = (mirror.clone(), mirror.clone(), mirror);
    let (c1, c2, c3) = (cur.clone(), cur.clone(), cur);
    Hooks {
        e: Box::new(move || {
            let _: f64 = m1.lock().unwrap().random();
            note("#obs", &c1, Dec::Error);
        }),
        l: Box::new(move |d| {
            {
                let mut m = m2.lock().unwrap();
                if has_e {
                    let _: f64 = m.random();
                }
                let _: f64 = m.random();
                if hi > lo {
                    let _: u64 = m.random_range(lo..=hi);
                }
            }
            note("#obs", &c2, Dec::Lat(d.as_millis() as u64));
        }),
        p: Box::new(move || {
            {
                let mut m = m3.lock().unwrap();
                if has_e {
                    let _: f64 = m.random();
                }
                if has_l {
                    let _: f64 = m.random();
                }
            }
            note("#obs", &c3, Dec::Pass);
        }),
    }
}

/// The twin instance as its caller sees it: the one handle (until `manual dropsvc`), the requests that have arrived
/// and whose `call()` is still to be made (at their first poll), and the futures of the `call()`s made when the
/// handle was about to be dropped.
struct TwinSide {
    /// the twin's only handle (and its layer); `None` once every handle has been dropped
    make: Option<MakeFut>,
    /// arrived, not yet first polled, in arrival order
    waiting: Vec<(usize, Req, Via)>,
    /// `call()` made at `manual dropsvc` for a request that had not been polled yet
    made: HashMap<usize, Option<Fut>>,
}

pub struct Adapter {
    p: Params,
    /// every handle of instance A (pristine service, kept clones, layer); `None` once dropped
    make_a: Option<MakeFut>,
    twin: Rc<RefCell<TwinSide>>,
    a_calls: Calls,
    b_calls: Calls,
    mirror: Arc<Mutex<StdRng>>,
    oracle: Rc<RefCell<StdRng>>,
    cur: Cur,
    cur_b: Cur,
}

impl Adapter {
    pub fn new(kv: &Kv) -> Adapter {
        let seed = kv.u64("seed", 0);
        let p = Params {
            seed,
            erate: kv.get("erate").map(|s| parse_rate(s, seed)),
            lrate: parse_rate(&kv.str("lrate", "T0"), seed),
            min: Duration::from_micros(kv.u64("min_us", 0)),
            max: Duration::from_micros(kv.u64("max_us", 0)),
            order: kv.u64("order", 0),
            handles: kv.u64("handles", 0).min(64) as usize,
        };
        let mirror = Arc::new(Mutex::new(StdRng::seed_from_u64(seed)));
        let oracle = Rc::new(RefCell::new(StdRng::seed_from_u64(seed)));
        let cur: Cur = Default::default();
        let cur_b: Cur = Default::default();
        let a_calls: Calls = Default::default();
        let b_calls: Calls = Default::default();
        // `ready=<script>`: the strict scripted service (readiness per instance, answers from the script)
        let inner = match kv.get("ready") {
            Some(script) => Inner::strict(script),
            None => Inner::new(),
        };
        let make_a = build(
            Tap { inner, calls: a_calls.clone(), trace: true },
            &p,
            hooks_a(&p, mirror.clone(), cur.clone()),
            Handles { k: p.handles, trace: true },
        );
        let make_b = build(
            Tap { inner: Quiet { ready: false }, calls: b_calls.clone(), trace: false },
            &p,
            hooks_b(cur_b.clone()),
            Handles { k: 0, trace: false },
        );
        let twin = Rc::new(RefCell::new(TwinSide { make: Some(make_b), waiting: Vec::new(), made: HashMap::new() }));
        Adapter { p, make_a: Some(make_a), twin, a_calls, b_calls, mirror, oracle, cur, cur_b }
    }
}

pub fn render(r: Result<Resp, IErr>) -> String {
    match r {
        Ok(x) => format!("ok:{}", x.v),
        Err(e) => format!("err:inner{}:{}", e.kind, e.v),
    }
}

/// the call future of instance A together with its twin of instance B
struct Pair {
    c: usize,
    fa: Fut,
    /// the twin's request waits in `twin.waiting`: its `call()` is made at the first poll, on the twin's only
    /// handle — or, if every handle is dropped before that, just before the handle goes (`twin.made`)
    twin: Rc<RefCell<TwinSide>>,
    fb: Option<Fut>,
    b_res: Option<Result<Resp, IErr>>,
    first: bool,
    reported: bool,
    a_calls: Calls,
    b_calls: Calls,
    mirror: Arc<Mutex<StdRng>>,
    oracle: Rc<RefCell<StdRng>>,
    cur: Cur,
    cur_b: Cur,
    lo: u64,
    hi: u64,
    et: u64,
    lt: u64,
}

fn state(injected: bool, calls: &Calls, c: usize) -> String {
    match calls.lock().unwrap().get(&c) {
        Some(t) => format!("call@{}", t),
        None if injected => "error".into(),
        None => "wait".into(),
    }
}

impl Future for Pair {
    type Output = String;
    fn poll(mut self: Pin<&mut Self>, cx: &mut Context<'_>) -> Poll<String> {
        let this = &mut *self;
        if this.first {
            this.first = false;
            // the draws the layer will make next, in its fixed order, on clones of the mirror
            let mut s2 = this.mirror.lock().unwrap().clone();
            let x1: f64 = s2.random();
            let mut s1 = s2.clone();
            let x2: f64 = s2.random();
            let (g1, g2) = if this.hi > this.lo {
                (s1.random_range(this.lo..=this.hi), s2.random_range(this.lo..=this.hi))
            } else {
                (this.lo, this.lo)
            };
            // the exact thresholds of the configured rates travel with every first poll
            obs("eT", this.et);
            obs("lT", this.lt);
            obs("r1", (x1 * P53 as f64) as u64);
            obs("r2", (x2 * P53 as f64) as u64);
            obs("g1", g1);
            obs("g2", g2);
            // decision i of the seed's stream for the i-th first poll, from the free-running oracle
            let pred = decide_next(&mut this.oracle.borrow_mut(), this.et, this.lt, this.lo, this.hi);
            log_raw(format!("#pred {} {}", this.c, pred));
            let mut tw = this.twin.borrow_mut();
            if let Some(f) = tw.made.remove(&this.c) {
                this.fb = f;
            } else if let Some(i) = tw.waiting.iter().position(|(c, _, _)| *c == this.c) {
                let (_, req, via) = tw.waiting.remove(i);
                if let Some(mk) = tw.make.as_mut() {
                    this.fb = mk(req, via);
                }
            }
        }
        // the twin first: a scripted panic of A's inner service unwinds out of this function
        if let Some(fb) = this.fb.as_mut() {
            *this.cur_b.lock().unwrap() = Some(this.c);
            if let Poll::Ready(r) = fb.as_mut().poll(cx) {
                this.b_res = Some(r);
                this.fb = None;
            }
            *this.cur_b.lock().unwrap() = None;
        }
        *this.cur.lock().unwrap() = Some(this.c);
        let ra = this.fa.as_mut().poll(cx);
        *this.cur.lock().unwrap() = None;
        let a_inj = matches!(&ra, Poll::Ready(Err(e)) if e.kind == 99);
        let b_inj = matches!(&this.b_res, Some(Err(e)) if e.kind == 99);
        let (sa, sb) = (state(a_inj, &this.a_calls, this.c), state(b_inj, &this.b_calls, this.c));
        if sa != sb && !this.reported {
            this.reported = true;
            log(format!("twin-mismatch {} a={} b={}", this.c, sa, sb));
        }
        match ra {
            Poll::Ready(r) => Poll::Ready(render(r)),
            Poll::Pending => Poll::Pending,
        }
    }
}

impl Drop for Pair {
    fn drop(&mut self) {
        if self.first {
            // never polled: the twin has no `call()` to make for it any more
            if let Ok(mut tw) = self.twin.try_borrow_mut() {
                tw.waiting.retain(|(c, _, _)| *c != self.c);
                tw.made.remove(&self.c);
            }
        }
    }
}

// ------------------------------------------------------------------ real-thread stress search

thread_local! {
    /// decisions reported by the layer's callbacks during the current poll on this thread
    static TL_DECS: RefCell<Vec<Dec>> = RefCell::new(Vec::new());
    /// inner calls made during the current poll on this thread
    static TL_INNER: Cell<u64> = Cell::new(0);
}

/// inner service of the stress instance: counts its calls, answers at once
#[derive(Clone)]
struct Counting(Arc<AtomicU64>);
impl Service<Req> for Counting {
    type Response = Resp;
    type Error = IErr;
    type Future = std::future::Ready<Result<Resp, IErr>>;
    fn poll_ready(&mut self, _cx: &mut Context<'_>) -> Poll<Result<(), IErr>> {
        Poll::Ready(Ok(()))
    }
    fn call(&mut self, req: Req) -> Self::Future {
        self.0.fetch_add(1, Ordering::Relaxed);
        TL_INNER.with(|x| x.set(x.get() + 1));
        std::future::ready(Ok(Resp { v: 0, c: req.c, tag: req.tag }))
    }
}

struct ThreadOut {
    decs: Vec<Dec>,
    /// calls whose first poll returned the injected error / anything else at once / pending
    failed: u64,
    returned: u64,
    pending: u64,
    /// first call of this thread whose behaviour contradicts the decision the layer reported for it
    anomaly: Option<String>,
    anomalies: u64,
    /// first call of this thread that does not do what the configuration demands of every call
    undemanded: Option<String>,
}

struct Stress {
    threads: usize,
    calls: usize,
    /// what the configuration demands of EVERY call, if anything: error rate 1 => `Some(Dec::Error)`,
    /// both rates 0 => `Some(Dec::Pass)`
    every: Option<Dec>,
}
struct StressOut {
    per_thread: Vec<ThreadOut>,
    /// threads / runtimes could not be created: nothing was checked
    aborted: bool,
}

impl Consumer<StressOut> for Stress {
    fn take<Sv>(self, svc: Sv, _layer: Box<dyn Any>) -> StressOut
    where
        Sv: Service<Req, Response = Resp, Error = IErr, Future = Fut> + Clone + Send + 'static,
    {
        let n = self.threads;
        let every = self.every;
        // start line: every thread reports ready and spins until `go`; `stop` = the run is aborted because a
        // thread (or its runtime) could not be created — an infrastructure problem, never a finding
        let ready = Arc::new(AtomicU64::new(0));
        let go = Arc::new(AtomicBool::new(false));
        let stop = Arc::new(AtomicBool::new(false));
        let mut handles = Vec::new();
        for tid in 0..n {
            // every thread owns a clone of the one service: all of them share its generator
            let mut s = svc.clone();
            let quota = self.calls / n + usize::from(tid < self.calls % n);
            let (ready, go, stop_t) = (ready.clone(), go.clone(), stop.clone());
            let spawned = std::thread::Builder::new().name(format!("stress-{}", tid)).spawn(move || {
                // a tiny runtime of its own, only so that `tokio::time::sleep` can be created and polled
                let rt = tokio::runtime::Builder::new_current_thread().enable_time().start_paused(true).build();
                if rt.is_err() {
                    stop_t.store(true, Ordering::SeqCst);
                }
                let _g = rt.as_ref().ok().map(|rt| rt.enter());
                let waker = Waker::from(Arc::new(Flag::new(false)));
                let mut cx = Context::from_waker(&waker);
                let plan: Arc<Mutex<VecDeque<Step>>> = Default::default();
                let mut out = ThreadOut { decs: Vec::with_capacity(quota), failed: 0, returned: 0, pending: 0, anomaly: None, anomalies: 0, undemanded: None };
                ready.fetch_add(1, Ordering::SeqCst);
                while !go.load(Ordering::Acquire) {
                    std::hint::spin_loop();
                    std::thread::yield_now();
                }
                for i in 0..quota {
                    if stop_t.load(Ordering::Relaxed) {
                        break;
                    }
                    TL_DECS.with(|d| d.borrow_mut().clear());
                    TL_INNER.with(|x| x.set(0));
                    let tag = (tid * 1_000_000 + i) as u64;
                    let req = Req { c: tid, key: 0, tag, plan: plan.clone() };
                    if !matches!(s.poll_ready(&mut cx), Poll::Ready(Ok(()))) {
                        out.anomalies += 1;
                        out.anomaly.get_or_insert(format!("thread {} call #{}: poll_ready not ready", tid, i));
                        continue;
                    }
                    let mut fut = s.call(req);
                    let r = fut.as_mut().poll(&mut cx);
                    drop(fut);
                    let inner = TL_INNER.with(|x| x.get());
                    let decs: Vec<Dec> = TL_DECS.with(|d| d.borrow().clone());
                    let shown = match &r {
                        Poll::Ready(Ok(x)) => format!("returned ok (tag {})", x.tag),
                        Poll::Ready(Err(e)) if e.kind == 99 => format!("failed with the injected error (tag {})", e.v),
                        Poll::Ready(Err(e)) => format!("failed with err{}", e.kind),
                        Poll::Pending => "is delayed (pending)".to_string(),
                    };
                    match &r {
                        Poll::Ready(Err(e)) if e.kind == 99 => out.failed += 1,
                        Poll::Ready(_) => out.returned += 1,
                        Poll::Pending => out.pending += 1,
                    }
                    // the behaviour of this call against the one decision the layer reported for it
                    let consistent = match (decs.as_slice(), &r) {
                        ([Dec::Error], Poll::Ready(Err(e))) => e.kind == 99 && e.v == tag && inner == 0,
                        ([Dec::Pass], Poll::Ready(Ok(x))) => x.tag == tag && inner == 1,
                        ([Dec::Lat(0)], Poll::Ready(Ok(x))) => x.tag == tag && inner == 1,
                        ([Dec::Lat(0)], Poll::Pending) => inner == 0,
                        ([Dec::Lat(_)], Poll::Pending) => inner == 0,
                        _ => false,
                    };
                    let demanded = match (every, &r) {
                        (Some(Dec::Error), Poll::Ready(Err(e))) => e.kind == 99 && inner == 0,
                        (Some(Dec::Pass), Poll::Ready(Ok(_))) => inner == 1,
                        (Some(_), _) => false,
                        (None, _) => true,
                    };
                    if !demanded && out.undemanded.is_none() {
                        out.undemanded = Some(format!(
                            "thread {} call #{} (after {} calls of this thread that failed with the injected error): the call {} and the inner service was called {} time(s)",
                            tid, i, out.failed - u64::from(matches!(&r, Poll::Ready(Err(e)) if e.kind == 99)), shown, inner
                        ));
                    }
                    if !consistent {
                        out.anomalies += 1;
                        let ds: Vec<String> = decs.iter().map(|d| d.to_string()).collect();
                        out.anomaly.get_or_insert(format!(
                            "thread {} call #{}: the layer reported the decision(s) [{}] but the call {} and the inner service was called {} time(s)",
                            tid, i, ds.join(","), shown, inner
                        ));
                    }
                    if let [d] = decs.as_slice() {
                        out.decs.push(*d);
                    }
                }
                out
            });
            match spawned {
                Ok(h) => handles.push(h),
                Err(_) => stop.store(true, Ordering::SeqCst),
            }
        }
        while ready.load(Ordering::SeqCst) < handles.len() as u64 {
            std::thread::yield_now();
        }
        go.store(true, Ordering::Release);
        let per_thread = handles.into_iter().map(|h| h.join().expect("stress thread")).collect();
        StressOut { per_thread, aborted: stop.load(Ordering::SeqCst) }
    }
}

fn wall_us() -> u128 {
    std::time::SystemTime::now().duration_since(std::time::UNIX_EPOCH).map(|d| d.as_micros()).unwrap_or(0)
}

impl Adapter {
    /// Stress search on real OS threads. N threads, each with its own clone of ONE freshly built
    /// service (same configuration, same seed, a counting inner service) make K calls in total,
    /// first poll only, all released together from a start line. The oracles are clauses of the property:
    ///  1. every call behaves as the single decision the layer reported for it (injected error =>
    ///     that request's error, inner service not called; pass => inner called once; delay => pending);
    ///  2. error rate 1: every call fails and the inner service is never called; rates 0/0: every
    ///     call passes (special cases of 3, stated separately);
    ///  3. seeded determinism under any thread interleaving: each request consumes exactly its own
    ///     rolls, atomically (the generator's mutex), so the MULTISET of the decisions of the K calls
    ///     is the multiset of the first K decisions of the seed's stream (computed here sequentially
    ///     with the oracle generator).
    /// Nondeterministic by nature (real scheduling): a clean run proves nothing, a failing run is a
    /// concrete counter-example and is reported in full (`#stress-fail`).
    fn stress(&mut self, kv: &Kv) {
        let _busy = Busy::new();
        let threads = kv.u64("threads", 4).clamp(1, 64) as usize;
        let calls = kv.u64("calls", 1000).min(50_000_000) as usize;
        let (et, lt, lo, hi) = (self.p.et(), self.p.lt(), self.p.min_ms(), self.p.max_ms());
        let inner_calls = Arc::new(AtomicU64::new(0));
        let hooks = Hooks {
            e: Box::new(|| TL_DECS.with(|d| d.borrow_mut().push(Dec::Error))),
            l: Box::new(|d| TL_DECS.with(|v| v.borrow_mut().push(Dec::Lat(d.as_millis() as u64)))),
            p: Box::new(|| TL_DECS.with(|d| d.borrow_mut().push(Dec::Pass))),
        };
        let every = if et == P53 {
            Some(Dec::Error)
        } else if et == 0 && lt == 0 {
            Some(Dec::Pass)
        } else {
            None
        };
        let t0 = wall_us();
        let out = build(Counting(inner_calls.clone()), &self.p, hooks, Stress { threads, calls, every });
        let wall = wall_us().saturating_sub(t0);
        if out.aborted {
            log_raw("#harness-panic stress: could not create the threads / their runtimes".into());
            return;
        }
        let inner_total = inner_calls.load(Ordering::SeqCst);
        let mut seen: BTreeMap<Dec, u64> = BTreeMap::new();
        let (mut failed, mut returned, mut pending, mut anomalies, mut decided) = (0u64, 0u64, 0u64, 0u64, 0u64);
        let mut first_anomaly: Option<String> = None;
        let mut first_undemanded: Option<String> = None;
        for t in &out.per_thread {
            failed += t.failed;
            returned += t.returned;
            pending += t.pending;
            anomalies += t.anomalies;
            decided += t.decs.len() as u64;
            if first_anomaly.is_none() {
                first_anomaly = t.anomaly.clone();
            }
            if first_undemanded.is_none() {
                first_undemanded = t.undemanded.clone();
            }
            for d in &t.decs {
                *seen.entry(*d).or_insert(0) += 1;
            }
        }
        let performed = failed + returned + pending;
        // the first `performed` decisions of the seed's stream, sequentially
        let mut want: BTreeMap<Dec, u64> = BTreeMap::new();
        let mut o = StdRng::seed_from_u64(self.p.seed);
        for _ in 0..performed {
            *want.entry(decide_next(&mut o, et, lt, lo, hi)).or_insert(0) += 1;
        }
        let count = |m: &BTreeMap<Dec, u64>, f: fn(&Dec) -> bool| -> u64 { m.iter().filter(|(d, _)| f(d)).map(|(_, n)| *n).sum() };
        let (ne, nl, np) = (
            count(&seen, |d| matches!(d, Dec::Error)),
            count(&seen, |d| matches!(d, Dec::Lat(_))),
            count(&seen, |d| matches!(d, Dec::Pass)),
        );
        let cfg = format!("threads={} calls={} seed={} eT={} lT={} range=[{},{}]ms", threads, calls, self.p.seed, et, lt, lo, hi);
        let totals = format!(
            "totals over {} calls: {} failed with the injected error, {} returned at once, {} delayed; inner service called {} time(s); decisions reported: {} error, {} delay, {} pass",
            performed, failed, returned, pending, inner_total, ne, nl, np
        );
        let mut fails: Vec<String> = Vec::new();
        if et == P53 && (failed != performed || inner_total != 0) {
            fails.push(format!(
                "error rate 1 but {} of {} calls did not fail and the inner service was called {} time(s); first: {}",
                performed - failed,
                performed,
                inner_total,
                first_undemanded.clone().unwrap_or_default()
            ));
        }
        if et == 0 && lt == 0 && (returned != performed || inner_total != performed) {
            fails.push(format!(
                "both rates 0 but only {} of {} calls passed straight through; first: {}",
                returned,
                performed,
                first_undemanded.clone().unwrap_or_default()
            ));
        }
        if let Some(a) = &first_anomaly {
            fails.push(format!("{} call(s) contradict the decision reported for them; first: {}", anomalies, a));
        }
        if seen != want {
            let mut diff: Vec<String> = Vec::new();
            let keys: std::collections::BTreeSet<Dec> = seen.keys().chain(want.keys()).cloned().collect();
            for k in keys {
                let (a, b) = (seen.get(&k).cloned().unwrap_or(0), want.get(&k).cloned().unwrap_or(0));
                if a != b && diff.len() < 6 {
                    diff.push(format!("{}: observed {} expected {}", k, a, b));
                }
            }
            fails.push(format!(
                "the multiset of the {} decisions differs from that of the first {} decisions of the seed's stream ({})",
                decided,
                performed,
                diff.join("; ")
            ));
        }
        log_raw(format!("#stress {} performed={} wall_us={} fails={}", cfg, performed, wall, fails.len()));
        if !fails.is_empty() {
            log_raw(format!("#stress-fail {} :: {} :: {}", cfg, fails.join(" | "), totals));
        }
        obs("ne", ne);
        obs("nl", nl);
        obs("np", np);
        log(format!("stress calls={} errors={} delayed={} passed={} anomalies={}", performed, ne, nl, np, anomalies));
    }
}

impl Mw for Adapter {
    fn arrive(&mut self, c: usize, kv: &Kv) -> Option<CallFut> {
        let Some(make_a) = self.make_a.as_mut() else {
            // every handle has been dropped: there is nothing left to make a call on
            log_raw("noop".into());
            return None;
        };
        let req = Req::new(c, kv);
        let via = Via::parse(kv.get("via"), if self.p.handles == 0 { Via::Clone } else { Via::Template });
        let tvia = Via::parse(kv.get("tvia"), Via::Template);
        RDY_LAYER.with(|x| x.borrow_mut().clear());
        RDY_INNER.with(|x| x.borrow_mut().clear());
        let made = make_a(req.clone(), via);
        log_raw(format!(
            "#rdy {} via={} layer={} inner={}",
            c,
            via.name(),
            RDY_LAYER.with(|x| x.borrow().clone()),
            RDY_INNER.with(|x| x.borrow().clone())
        ));
        let Some(fa) = made else {
            log(format!("result {} notready", c));
            return None;
        };
        log_raw(format!("#tvia {} {}", c, tvia.name()));
        self.twin.borrow_mut().waiting.push((c, req, tvia));
        Some(Box::pin(Pair {
            c,
            fa,
            twin: self.twin.clone(),
            fb: None,
            b_res: None,
            first: true,
            reported: false,
            a_calls: self.a_calls.clone(),
            b_calls: self.b_calls.clone(),
            mirror: self.mirror.clone(),
            oracle: self.oracle.clone(),
            cur: self.cur.clone(),
            cur_b: self.cur_b.clone(),
            lo: self.p.min_ms(),
            hi: self.p.max_ms(),
            et: self.p.et(),
            lt: self.p.lt(),
        }))
    }
    fn probe(&mut self, what: &str, _kv: &Kv) {
        if what == "cfg" {
            let et = self.p.et();
            let lt = self.p.lt();
            obs("eT", et);
            obs("lT", lt);
            log(format!("probe cfg eT={} lT={}", et, lt));
        }
    }
    fn manual(&mut self, what: &str, kv: &Kv) {
        if what == "stress" {
            // the thresholds travel with the op (a shrunk case may have lost `probe cfg`)
            obs("eT", self.p.et());
            obs("lT", self.p.lt());
            self.stress(kv);
        }
        if what == "dropsvc" {
            log_raw(format!("#dropsvc {}", now_ms()));
            // instance A: the pristine service, the kept clones and the layer all live in the closure
            self.make_a = None;
            // the twin makes the `call()`s it still owes (requests that arrived and were not polled yet), in
            // arrival order, then drops its only handle and its layer
            let mut tw = self.twin.borrow_mut();
            let waiting = std::mem::take(&mut tw.waiting);
            if let Some(mut mk) = tw.make.take() {
                for (c, req, via) in waiting {
                    let f = mk(req, via);
                    tw.made.insert(c, f);
                }
            }
        }
    }
}
