//! C14: the real interval functions (`tower_resilience_retry::backoff`) and every
//! `ReconnectPolicy` built on them, called directly with arbitrary attempt numbers.
//!
//! `probe backoff kind=exp|rand|fixed|retry_policy|policy_exp|policy_rand|policy_fixed|policy_none
//!        initial_ns=<n> mult_num=<p> mult_den=<q> cap_ns=<n>|none rf_pct=<0..100> attempt=<a>`
//! (keys may also be given once in the case header; keys of the operation win).
//! The call runs inside `catch_unwind`; the log line is `probe backoff attempt=<a> = <ns>|none|panic`.
//! The value is float-computed, so it is also handed to the model as the observed choice `@v=…`:
//! the model checks it against the envelope around its exact-arithmetic `ideal` (DESIGN §8 C14).
use crate::world::*;
use std::panic::{catch_unwind, AssertUnwindSafe};
use std::sync::Arc;
use std::time::Duration;
use tower_resilience_reconnect::ReconnectPolicy;
use tower_resilience_retry::{
    ExponentialBackoff, ExponentialRandomBackoff, FixedInterval, IntervalFunction, RetryPolicy,
};

pub struct Adapter {
    hdr: Kv,
}

impl Adapter {
    pub fn new(kv: &Kv) -> Adapter {
        Adapter { hdr: kv.clone() }
    }
}

fn dur(ns: u128) -> Duration {
    Duration::new((ns / 1_000_000_000) as u64, (ns % 1_000_000_000) as u32)
}

fn u128_of(kv: &Kv, k: &str, d: u128) -> u128 {
    kv.get(k).and_then(|v| v.parse().ok()).unwrap_or(d)
}

fn compute(kv: &Kv) -> Option<Duration> {
    let initial = dur(u128_of(kv, "initial_ns", 0));
    let mult = kv.u64("mult_num", 2) as f64 / kv.u64("mult_den", 1) as f64;
    let cap = kv.get("cap_ns").and_then(|v| v.parse::<u128>().ok()).map(dur);
    let rf = kv.u64("rf_pct", 50) as f64 / 100.0;
    let attempt = kv.get("attempt").and_then(|v| v.parse::<usize>().ok()).unwrap_or(0);
    match kv.str("kind", "exp").as_str() {
        "policy_none" => ReconnectPolicy::none().delay_for_attempt(attempt),
        "fixed" => Some(FixedInterval::new(initial).next_interval(attempt)),
        "policy_fixed" => ReconnectPolicy::fixed(initial).delay_for_attempt(attempt),
        "rand" => {
            let mut b = ExponentialRandomBackoff::new(initial, rf).multiplier(mult);
            if let Some(c) = cap {
                b = b.max_interval(c);
            }
            Some(b.next_interval(attempt))
        }
        "policy_rand" => {
            ReconnectPolicy::exponential_random(initial, cap.unwrap_or(Duration::MAX), rf).delay_for_attempt(attempt)
        }
        "policy_exp" => ReconnectPolicy::exponential(initial, cap.unwrap_or(Duration::MAX)).delay_for_attempt(attempt),
        "retry_policy" => {
            let mut b = ExponentialBackoff::new(initial).multiplier(mult);
            if let Some(c) = cap {
                b = b.max_interval(c);
            }
            Some(RetryPolicy::<IErr>::new(Arc::new(b)).next_backoff(attempt))
        }
        _ => {
            let mut b = ExponentialBackoff::new(initial).multiplier(mult);
            if let Some(c) = cap {
                b = b.max_interval(c);
            }
            Some(b.next_interval(attempt))
        }
    }
}

impl Mw for Adapter {
    fn arrive(&mut self, _c: usize, _kv: &Kv) -> Option<CallFut> {
        None
    }
    fn probe(&mut self, what: &str, kv: &Kv) {
        if what != "backoff" {
            return;
        }
        let mut all = kv.0.clone();
        all.extend(self.hdr.0.iter().cloned());
        let kv = Kv(all);
        let r = catch_unwind(AssertUnwindSafe(|| compute(&kv)));
        let v = match r {
            Ok(Some(d)) => d.as_nanos().to_string(),
            Ok(None) => "none".to_string(),
            Err(_) => "panic".to_string(),
        };
        obs("v", &v);
        log(format!("probe backoff attempt={} = {}", kv.str("attempt", "0"), v));
    }
}
