//! C14: the real interval functions (`tower_resilience_retry::backoff`) and every
//! `ReconnectPolicy` built on them, called directly with arbitrary attempt numbers.
//!
//! `probe backoff kind=exp|rand|fixed|retry_policy|policy_exp|policy_rand|policy_fixed|policy_none|…
//!        initial_ns=<n> mult_num=<p> mult_den=<q> cap_ns=<n>|none rf_pct=<0..100> attempt=<a>`
//! (keys may also be given once in the case header; keys of the operation win).
//! `rf_num=<n> rf_den=<d>`: the randomization factor handed to the constructor is the `f64` `n/d` — any rational, also
//! above 1 (the constructor clamps it; `n/0` with `n > 0` is `+inf`); without `rf_num=` it is `rf_pct/100`.
//!
//! `chain=<s1,s2,…>` (header or operation) is the builder chain itself, applied left to right to
//! `ExponentialBackoff::new(initial)` / `ExponentialRandomBackoff::new(initial, rf)` through the public
//! setters: `m<p>:<q>` = `.multiplier(p/q)`, `c<ns>` = `.max_interval(ns)`; any order, any repetition;
//! unknown items are skipped, `chain=-` = no setter at all (multiplier 2.0, no maximum). With `chain=` the keys
//! `mult_num mult_den cap_ns` are not consulted; without it they mean `.multiplier(m)` then, if there is a
//! cap, `.max_interval(cap)` (old op files unchanged). The chain-built object is reached through
//! `kind=exp|rand` (directly), `retry_policy|retry_policy_rand` (`RetryPolicy::new(Arc<…>)::next_backoff`),
//! `policy_exp_of|policy_rand_of` (`ReconnectPolicy::Exponential(b)` / `ExponentialRandom(b)`),
//! `policy_custom` (`ReconnectPolicy::Custom(Arc<ExponentialBackoff>)`). `policy_exp|policy_rand` are the
//! two-argument constructors (`ReconnectPolicy::exponential(initial, cap)`, their own fixed chain).
//! `clone=1`: the finished object is cloned, the original dropped, and the clone is asked.
//! The call runs inside `catch_unwind`; the log line is `probe backoff attempt=<a> = <ns>|none|panic`.
//! The value is float-computed, so it is also handed to the model as the observed choice `@v=…`:
//! the model checks it against the envelope around its exact-arithmetic `ideal` (DESIGN §8 C14).
use crate::world::*;
use std::panic::{catch_unwind, AssertUnwindSafe};
use std::sync::Arc;
use std::time::Duration;
use tower_resilience_reconnect::ReconnectPolicy;
use tower_resilience_retry::{
    ExponentialBackoff, ExponentialRandomBackoff, FixedInterval, IntervalFunction, RetryPolicy,
};

pub struct Adapter {
    hdr: Kv,
}

impl Adapter {
    pub fn new(kv: &Kv) -> Adapter {
        Adapter { hdr: kv.clone() }
    }
}

fn dur(ns: u128) -> Duration {
    Duration::new((ns / 1_000_000_000) as u64, (ns % 1_000_000_000) as u32)
}

fn u128_of(kv: &Kv, k: &str, d: u128) -> u128 {
    kv.get(k).and_then(|v| v.parse().ok()).unwrap_or(d)
}

enum Set {
    Mult(f64),
    Cap(Duration),
}

fn parse_chain(s: &str) -> Vec<Set> {
    s.split(',')
        .filter_map(|w| {
            if let Some(r) = w.strip_prefix('m') {
                let (p, q) = r.split_once(':')?;
                Some(Set::Mult(p.parse::<u64>().ok()? as f64 / q.parse::<u64>().ok()? as f64))
            } else if let Some(r) = w.strip_prefix('c') {
                Some(Set::Cap(dur(r.parse::<u128>().ok()?)))
            } else {
                None
            }
        })
        .collect()
}

/// the setters to apply, in order
fn chain_of(kv: &Kv) -> Vec<Set> {
    if let Some(ch) = kv.get("chain") {
        return parse_chain(ch);
    }
    let mut v = vec![Set::Mult(kv.u64("mult_num", 2) as f64 / kv.u64("mult_den", 1) as f64)];
    if let Some(c) = kv.get("cap_ns").and_then(|v| v.parse::<u128>().ok()) {
        v.push(Set::Cap(dur(c)));
    }
    v
}

fn build_exp(initial: Duration, chain: &[Set]) -> ExponentialBackoff {
    let mut b = ExponentialBackoff::new(initial);
    for s in chain {
        b = match s {
            Set::Mult(m) => b.multiplier(*m),
            Set::Cap(c) => b.max_interval(*c),
        };
    }
    b
}

fn build_rand(initial: Duration, rf: f64, chain: &[Set]) -> ExponentialRandomBackoff {
    let mut b = ExponentialRandomBackoff::new(initial, rf);
    for s in chain {
        b = match s {
            Set::Mult(m) => b.multiplier(*m),
            Set::Cap(c) => b.max_interval(*c),
        };
    }
    b
}

/// `clone=1`: hand on a clone, drop the original
fn via<T: Clone>(cl: bool, x: T) -> T {
    if cl {
        let y = x.clone();
        drop(x);
        y
    } else {
        x
    }
}

fn compute(kv: &Kv) -> Option<Duration> {
    let initial = dur(u128_of(kv, "initial_ns", 0));
    let cap = kv.get("cap_ns").and_then(|v| v.parse::<u128>().ok()).map(dur);
    let rf = match kv.get("rf_num") {
        Some(_) => kv.u64("rf_num", 1) as f64 / kv.u64("rf_den", 2) as f64,
        None => kv.u64("rf_pct", 50) as f64 / 100.0,
    };
    let attempt = kv.get("attempt").and_then(|v| v.parse::<usize>().ok()).unwrap_or(0);
    let cl = kv.u64("clone", 0) != 0;
    let chain = chain_of(kv);
    match kv.str("kind", "exp").as_str() {
        "policy_none" => via(cl, ReconnectPolicy::none()).delay_for_attempt(attempt),
        "fixed" => Some(via(cl, FixedInterval::new(initial)).next_interval(attempt)),
        "policy_fixed" => via(cl, ReconnectPolicy::fixed(initial)).delay_for_attempt(attempt),
        "rand" => Some(via(cl, build_rand(initial, rf, &chain)).next_interval(attempt)),
        "policy_rand" => {
            via(cl, ReconnectPolicy::exponential_random(initial, cap.unwrap_or(Duration::MAX), rf)).delay_for_attempt(attempt)
        }
        "policy_exp" => via(cl, ReconnectPolicy::exponential(initial, cap.unwrap_or(Duration::MAX))).delay_for_attempt(attempt),
        "policy_exp_of" => {
            via(cl, ReconnectPolicy::Exponential(via(cl, build_exp(initial, &chain)))).delay_for_attempt(attempt)
        }
        "policy_rand_of" => {
            via(cl, ReconnectPolicy::ExponentialRandom(via(cl, build_rand(initial, rf, &chain)))).delay_for_attempt(attempt)
        }
        "policy_custom" => {
            via(cl, ReconnectPolicy::Custom(Arc::new(build_exp(initial, &chain)))).delay_for_attempt(attempt)
        }
        "retry_policy" => Some(RetryPolicy::<IErr>::new(Arc::new(via(cl, build_exp(initial, &chain)))).next_backoff(attempt)),
        "retry_policy_rand" => {
            Some(RetryPolicy::<IErr>::new(Arc::new(via(cl, build_rand(initial, rf, &chain)))).next_backoff(attempt))
        }
        _ => Some(via(cl, build_exp(initial, &chain)).next_interval(attempt)),
    }
}

impl Mw for Adapter {
    fn arrive(&mut self, _c: usize, _kv: &Kv) -> Option<CallFut> {
        None
    }
    fn probe(&mut self, what: &str, kv: &Kv) {
        if what != "backoff" {
            return;
        }
        let mut all = kv.0.clone();
        all.extend(self.hdr.0.iter().cloned());
        let kv = Kv(all);
        let r = catch_unwind(AssertUnwindSafe(|| compute(&kv)));
        let v = match r {
            Ok(Some(d)) => d.as_nanos().to_string(),
            Ok(None) => "none".to_string(),
            Err(_) => "panic".to_string(),
        };
        obs("v", &v);
        log(format!("probe backoff attempt={} = {}", kv.str("attempt", "0"), v));
    }
}
