//! C10: the real `CacheLayer` / `SharedCacheLayer` over the scripted inner service.
//!
//! header: `cache max=<n> policy=lru|lfu|fifo [ttl=<ticks>] [shared=0|1|2] [tick=us]`   (one tick = 1 ms unless `tick=us`)
//!   shared=0  one service built by `CacheLayer::layer`; every caller uses a clone of it
//!   shared=1  `SharedCacheLayer::builder()…build()`, two services from two `layer()` calls
//!   shared=2  `CacheLayer::builder()…build().shared::<Resp>()`, two services likewise
//!   tick=us   one clock tick is 1 µs: `ttl=<n>` is n ticks (`world::ticks`), so are `adv n` and `t=`. The cache is
//!             timed by `std::time::Instant` alone, so TTLs that are not whole milliseconds and lookups at ages between
//!             two millisecond boundaries are exact. The scripted inner service sleeps on a tokio timer (millisecond
//!             granularity, `lat` in ms): `tick=us` cases use `inner=0:<out>` and time the completion with the `poll`.
//! arrive: `arrive <c> key=<k> [svc=0|1] inner=<lat>:<out>`; the key extractor is `|r| r.key`.
//!
//! The lookup happens inside `call()`, i.e. in the `arrive` operation; the adapter first echoes
//! the request (`req c key=k svc=i`, no information from the middleware in it) so that the
//! instant of the lookup is in the log. Whether the lookup hit is visible to everybody as the
//! absence of an `inner_call` line; it is additionally handed to the model driver as the
//! observed choice `@hit=0|1`, which the driver uses *only* to prune the set of LFU states
//! (which key was evicted among minimum-count ties is decided by hash-map order and cannot be
//! observed at eviction time without disturbing the counts).
use crate::world::*;
use std::time::Duration;
use tower::{Layer, Service};
use tower_resilience_cache::{Cache, CacheError, CacheLayer, EvictionPolicy, SharedCacheLayer};

type Svc = Cache<Inner, Req, u64, Resp>;

pub struct Adapter {
    svcs: Vec<Svc>,
}

fn policy(kv: &Kv) -> EvictionPolicy {
    match kv.str("policy", "lru").as_str() {
        "lfu" => EvictionPolicy::Lfu,
        "fifo" => EvictionPolicy::Fifo,
        _ => EvictionPolicy::Lru,
    }
}

impl Adapter {
    pub fn new(kv: &Kv) -> Adapter {
        let max = kv.u64("max", 1) as usize;
        let ttl: Option<Duration> = kv.opt_u64("ttl").map(ticks);
        let svcs = match kv.u64("shared", 0) {
            0 => {
                let mut b = CacheLayer::<Req, u64>::builder()
                    .max_size(max)
                    .eviction_policy(policy(kv))
                    .key_extractor(|r: &Req| r.key);
                if let Some(t) = ttl {
                    b = b.ttl(t);
                }
                vec![b.build().layer(Inner::new())]
            }
            1 => {
                let mut b = SharedCacheLayer::<Req, u64, Resp>::builder()
                    .max_size(max)
                    .eviction_policy(policy(kv))
                    .key_extractor(|r: &Req| r.key);
                if let Some(t) = ttl {
                    b = b.ttl(t);
                }
                let layer = b.build();
                vec![layer.layer(Inner::new()), layer.clone().layer(Inner::new())]
            }
            _ => {
                let mut b = CacheLayer::<Req, u64>::builder()
                    .max_size(max)
                    .eviction_policy(policy(kv))
                    .key_extractor(|r: &Req| r.key);
                if let Some(t) = ttl {
                    b = b.ttl(t);
                }
                let layer = b.build().shared::<Resp>();
                vec![layer.layer(Inner::new()), layer.layer(Inner::new())]
            }
        };
        Adapter { svcs }
    }
}

pub fn render(r: Result<Resp, CacheError<IErr>>) -> String {
    match r {
        Ok(x) => format!("ok:{}", x.v),
        Err(CacheError::Inner(e)) => format!("err:inner{}:{}", e.kind, e.v),
    }
}

impl Mw for Adapter {
    fn arrive(&mut self, c: usize, kv: &Kv) -> Option<CallFut> {
        let i = kv.u64("svc", 0);
        let n = self.svcs.len();
        let mut svc = self.svcs[(i as usize) % n].clone();
        let req = Req::new(c, kv);
        log(format!("req {} key={} svc={}", c, req.key, i));
        match poll_ready_once(&mut svc) {
            std::task::Poll::Ready(Ok(())) => {}
            _ => {
                log(format!("result {} notready", c));
                return None;
            }
        }
        let before = log_len();
        let fut = svc.call(req);
        let hit = log_len() == before; // the inner service logs `inner_call` from inside `call()`
        obs("hit", hit as u8);
        Some(held(fut, render))
    }
}
