//! C10: the real `CacheLayer` / `SharedCacheLayer` over the scripted inner service.
//!
//! header: `cache [max=<n>] [policy=lru|lfu|fifo] [ttl=<ticks>] [shared=0|1|2] [nsvc=<n>] [listen=1] [name=<s>]
//!                [via=builder|new|default] [tick=us]`   (one tick = 1 ms unless `tick=us`)
//!   max / policy / ttl   absent = the setter is NOT called: the builder's documented default applies (100 / LRU / none).
//!             `ttl=0` is `Duration::ZERO` (a TTL of zero, not "no TTL"). `ttl=<n>` is EXACTLY n ticks for every
//!             natural n a `Duration` can hold (parsed as u128: up to 2^64 s, far beyond what `Instant + ttl` can
//!             represent - `world::ticks` would saturate at 2^64 ns); `ttl=max` is `Duration::MAX` ("never expires")
//!   shared=0  one layer value built by `CacheLayer::builder()…build()`: every service built from it by `layer()` has
//!             its OWN store (layer.rs, "State Isolation")
//!   shared=1  `SharedCacheLayer::builder()…build()`: every service built from the layer value shares ONE store
//!   shared=2  `CacheLayer::builder()…build().shared::<Resp>()`, likewise one store
//!   nsvc=<n>  number of services (default 1 for shared=0, 2 otherwise). Service k is built at its first use
//!             (`arrive … svc=k`, k taken mod n) by `layer.layer(inner)` - or by `layer.clone().layer(inner)` when that
//!             arrive says `lc=1` (a clone of the layer value taken after other services were built and used)
//!   listen=1  the builder gets `.on_hit` / `.on_miss` / `.on_eviction` listeners (plain and shared builder alike);
//!             `probe events` logs how often each has fired. The eviction listener additionally records `@ev=1` on the
//!             `poll` line during which it fired (the model needs it only when LFU candidates disagree)
//!   name=<s>  `.name(s)` (reaches only event names / metric labels; nothing observable here)
//!   via=new | default   the builder value comes from `CacheConfigBuilder::new()` / `Default::default()`
//!             (`SharedCacheConfigBuilder` likewise) instead of `CacheLayer::builder()`
//!   tick=us   one clock tick is 1 µs: `ttl=<n>` is n ticks (`world::ticks`), so are `adv n` and `t=`. The cache is
//!             timed by `std::time::Instant` alone, so TTLs that are not whole milliseconds and lookups at ages between
//!             two millisecond boundaries are exact. The scripted inner service sleeps on a tokio timer (millisecond
//!             granularity, `lat` in ms): `tick=us` cases use `inner=0:<out>` and time the completion with the `poll`.
//! arrive: `arrive <c> key=<k> [svc=<k>] [h=<j>] [lc=1] inner=<lat>:<out>`; the key extractor is `|r| r.key`.
//!   h absent  the call is made on a fresh clone of service k (a clone taken after earlier calls)
//!   h=0       the call is made on the service value `layer()` returned, itself (the same handle again and again)
//!   h=<j>     the call is made on handle j of service k: a clone of the service taken at the handle's first use and
//!             then reused (`h.call(); h.call()`)
//!   Every handle of a service shares the store of that service (`Cache::clone`).
//!
//! The lookup happens inside `call()`, i.e. in the `arrive` operation; the adapter first echoes
//! the request (`req c key=k svc=i`, no information from the middleware in it) so that the
//! instant of the lookup is in the log. Whether the lookup hit is visible to everybody as the
//! absence of an `inner_call` line; it is additionally handed to the model driver as the
//! observed choice `@hit=0|1`, which the driver uses *only* to prune the set of LFU states
//! (which key was evicted among minimum-count ties is decided by hash-map order and cannot be
//! observed at eviction time without disturbing the counts).
use crate::world::*;
use std::collections::BTreeMap;
use std::sync::atomic::{AtomicU64, Ordering};
use std::sync::Arc;
use std::time::Duration;
use tower::{Layer, Service};
use tower_resilience_cache::{
    Cache, CacheConfigBuilder, CacheError, CacheLayer, EvictionPolicy, SharedCacheConfigBuilder, SharedCacheLayer,
};

type Svc = Cache<Inner, Req, u64, Resp>;

enum Lay {
    Private(CacheLayer<Req, u64>),
    Shared(SharedCacheLayer<Req, u64, Resp>),
}

#[derive(Default)]
struct Counts {
    hit: AtomicU64,
    miss: AtomicU64,
    evict: AtomicU64,
}

pub struct Adapter {
    layer: Lay,
    svcs: Vec<Option<Svc>>,
    handles: BTreeMap<(usize, u64), Svc>,
    listen: bool,
    counts: Arc<Counts>,
}

fn policy_of(s: &str) -> EvictionPolicy {
    match s {
        "lfu" => EvictionPolicy::Lfu,
        "fifo" => EvictionPolicy::Fifo,
        _ => EvictionPolicy::Lru,
    }
}

/// `ttl=<n>`: exactly n ticks (any n; beyond `Duration::MAX` it is `Duration::MAX`); `ttl=max`: `Duration::MAX`
fn ttl_of(s: &str) -> Option<Duration> {
    if s == "max" {
        return Some(Duration::MAX);
    }
    let n: u128 = s.parse().ok()?;
    let per = (1_000_000_000 / tick_ns().max(1)) as u128; // ticks per second
    let secs = n / per;
    if secs > u64::MAX as u128 {
        return Some(Duration::MAX);
    }
    Some(Duration::new(secs as u64, ((n % per) as u64 * tick_ns()) as u32))
}

/// the same sequence of setter calls on either builder type
macro_rules! configure {
    ($b:expr, $kv:expr, $counts:expr) => {{
        let mut b = $b.key_extractor(|r: &Req| r.key);
        if let Some(m) = $kv.opt_u64("max") {
            b = b.max_size(m as usize);
        }
        if let Some(p) = $kv.get("policy") {
            b = b.eviction_policy(policy_of(p));
        }
        if let Some(t) = $kv.get("ttl").and_then(ttl_of) {
            b = b.ttl(t);
        }
        if let Some(n) = $kv.get("name") {
            b = b.name(n);
        }
        if $kv.u64("listen", 0) == 1 {
            let (c1, c2, c3) = ($counts.clone(), $counts.clone(), $counts.clone());
            b = b
                .on_hit(move || {
                    c1.hit.fetch_add(1, Ordering::SeqCst);
                })
                .on_miss(move || {
                    c2.miss.fetch_add(1, Ordering::SeqCst);
                })
                .on_eviction(move || {
                    c3.evict.fetch_add(1, Ordering::SeqCst);
                    obs("ev", 1);
                });
        }
        b
    }};
}

impl Adapter {
    pub fn new(kv: &Kv) -> Adapter {
        let counts = Arc::new(Counts::default());
        let via = kv.str("via", "builder");
        let shared = kv.u64("shared", 0);
        let layer = if shared == 1 {
            let b: SharedCacheConfigBuilder<Req, u64, Resp> = match via.as_str() {
                "new" => SharedCacheConfigBuilder::new(),
                "default" => Default::default(),
                _ => SharedCacheLayer::<Req, u64, Resp>::builder(),
            };
            Lay::Shared(configure!(b, kv, counts).build())
        } else {
            let b: CacheConfigBuilder<Req, u64> = match via.as_str() {
                "new" => CacheConfigBuilder::new(),
                "default" => Default::default(),
                _ => CacheLayer::<Req, u64>::builder(),
            };
            let l = configure!(b, kv, counts).build();
            if shared == 0 {
                Lay::Private(l)
            } else {
                Lay::Shared(l.shared::<Resp>())
            }
        };
        let nsvc = (kv.u64("nsvc", if shared == 0 { 1 } else { 2 }) as usize).max(1);
        Adapter { layer, svcs: (0..nsvc).map(|_| None).collect(), handles: BTreeMap::new(), listen: kv.u64("listen", 0) == 1, counts }
    }

    fn build_svc(&self, from_layer_clone: bool) -> Svc {
        match (&self.layer, from_layer_clone) {
            (Lay::Private(l), false) => l.layer(Inner::new()),
            (Lay::Private(l), true) => l.clone().layer(Inner::new()),
            (Lay::Shared(l), false) => l.layer(Inner::new()),
            (Lay::Shared(l), true) => l.clone().layer(Inner::new()),
        }
    }
}

pub fn render(r: Result<Resp, CacheError<IErr>>) -> String {
    match r {
        Ok(x) => format!("ok:{}", x.v),
        Err(e) => {
            let inner = matches!(e, CacheError::Inner(_));
            let e = e.into_inner();
            format!("err:{}{}:{}", if inner { "inner" } else { "other" }, e.kind, e.v)
        }
    }
}

impl Mw for Adapter {
    fn arrive(&mut self, c: usize, kv: &Kv) -> Option<CallFut> {
        let i = kv.u64("svc", 0);
        let k = (i as usize) % self.svcs.len();
        if self.svcs[k].is_none() {
            self.svcs[k] = Some(self.build_svc(kv.u64("lc", 0) == 1));
        }
        let mut fresh;
        let svc: &mut Svc = match kv.opt_u64("h") {
            None => {
                fresh = self.svcs[k].as_ref().unwrap().clone();
                &mut fresh
            }
            Some(0) => self.svcs[k].as_mut().unwrap(),
            Some(j) => {
                let base = self.svcs[k].as_ref().unwrap();
                self.handles.entry((k, j)).or_insert_with(|| base.clone())
            }
        };
        let req = Req::new(c, kv);
        log(format!("req {} key={} svc={}", c, req.key, i));
        match poll_ready_once(svc) {
            std::task::Poll::Ready(Ok(())) => {}
            _ => {
                log(format!("result {} notready", c));
                return None;
            }
        }
        let before = log_len();
        let fut = svc.call(req);
        let hit = log_len() == before; // the inner service logs `inner_call` from inside `call()`
        obs("hit", hit as u8);
        Some(held(fut, render))
    }

    fn probe(&mut self, what: &str, _kv: &Kv) {
        if what != "events" {
            return;
        }
        if self.listen {
            let c = &self.counts;
            log(format!(
                "probe events hit={} miss={} evict={}",
                c.hit.load(Ordering::SeqCst),
                c.miss.load(Ordering::SeqCst),
                c.evict.load(Ordering::SeqCst)
            ));
        } else {
            log("probe events off".to_string());
        }
    }
}
