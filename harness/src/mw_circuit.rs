//! C03 / C04 / C09: the real `CircuitBreakerLayer` (with and without fallback) over the scripted inner service.
//!
//! header options (defaults leave old op files their meaning):
//!   listen=0   the breaker is built with NO event listener at all: the log has no `transition` lines, the breaker is observed
//!              only through results, `state()` / metrics probes and the inner calls
//!   early=<k>  (with `fallback=1`) bit 0: a clone of the plain breaker taken BEFORE `with_fallback` is kept (an operator's /
//!              health check's handle) and every manual override and probe goes through that earlier clone; bit 1: the fallback
//!              is attached only when the first request arrives — overrides and probes before that act on the plain breaker
//!   tick=us    one clock tick is 1 µs: `wait`, `wdur`, `slow` are in ticks (`world::ticks`); the breaker is timed by
//!              `std::time::Instant` alone. Scripted latencies (`inner=`, `fb=`) stay in MILLISECONDS: they are tokio timers,
//!              which fire at the first millisecond boundary >= start + latency.
use crate::world::*;
use futures::future::BoxFuture;
use futures::FutureExt;
use std::collections::BTreeMap;
use std::future::Future;
use std::pin::Pin;
use std::sync::Mutex;
use std::task::{Context, Poll};
use std::time::Duration;
use tower::Service;
use tower_resilience_circuitbreaker::{
    CircuitBreakerError, CircuitBreakerLayer, CircuitMetrics, CircuitState, SlidingWindowType,
};

pub struct Adapter {
    call: Box<dyn FnMut(Req) -> Option<CallFut>>,
    ctl: Box<dyn Fn(&str) -> String>,
    /// a self-contained caller (owns a clone of the breaker) for requests made from inside a destructor (`manual ondrop`)
    req: Requester,
}

/// Scripted behaviour of the fallback of caller `c` (`arrive <c> … fb=<lat>:<ok|errK|panic|never>`, default `0:ok`):
/// the fallback is a future of its own (a replica read, a remote cache) that need not finish on its first poll.
static FB: Mutex<BTreeMap<usize, Step>> = Mutex::new(BTreeMap::new());

/// The fallback's future. `fallback_call c` is logged when the handler is invoked (latency counts from there),
/// `fallback_drop c` when the future is dropped before it finished; its value is the caller's result.
struct FbFut {
    sleep: Option<Pin<Box<tokio::time::Sleep>>>,
    c: usize,
    tag: u64,
    out: Out,
    done: bool,
}
impl Future for FbFut {
    type Output = Result<Resp, IErr>;
    fn poll(mut self: Pin<&mut Self>, cx: &mut Context<'_>) -> Poll<Self::Output> {
        if self.done {
            panic!("fallback future polled after completion");
        }
        if self.out == Out::Never || self.out == Out::Hog {
            return Poll::Pending;
        }
        if let Some(s) = self.sleep.as_mut() {
            if s.as_mut().poll(cx).is_pending() {
                return Poll::Pending;
            }
        }
        self.done = true;
        let c = self.c;
        match self.out {
            Out::Ok => Poll::Ready(Ok(Resp { v: 900_000 + c as u64, c, tag: self.tag })),
            Out::Err(kind) => Poll::Ready(Err(IErr { kind, v: c as u64 })),
            _ => panic!("scripted fallback panic"),
        }
    }
}
impl Drop for FbFut {
    fn drop(&mut self) {
        if !self.done {
            log(format!("fallback_drop {}", self.c));
        }
    }
}

fn frac(kv: &Kv, k: &str, d: (u64, u64)) -> f64 {
    let s = kv.str(k, &format!("{}/{}", d.0, d.1));
    let (a, b) = s.split_once('/').unwrap_or(("1", "2"));
    a.parse::<f64>().unwrap_or(1.0) / b.parse::<f64>().unwrap_or(2.0)
}

fn st(s: CircuitState) -> &'static str {
    match s {
        CircuitState::Closed => "closed",
        CircuitState::Open => "open",
        CircuitState::HalfOpen => "halfopen",
    }
}

pub fn render(r: Result<Resp, CircuitBreakerError<IErr>>) -> String {
    match r {
        Ok(x) if x.v >= 900_000 => format!("ok:fallback:{}", x.v - 900_000),
        Ok(x) => format!("ok:{}", x.v),
        Err(CircuitBreakerError::Inner(e)) => format!("err:inner{}:{}", e.kind, e.v),
        Err(CircuitBreakerError::OpenCircuit) => "err:open".into(),
    }
}

fn views(state: CircuitState, sync: CircuitState, is_open: bool, m: CircuitMetrics) -> String {
    format!(
        "views state={} sync={} is_open={} mstate={} total={} fail={} succ={} slow={}",
        st(state), st(sync), is_open as u8, st(m.state), m.total_calls, m.failure_count, m.success_count, m.slow_call_count
    )
}

const BLOCKED: &str = "blocked";

macro_rules! ctl_on {
    ($svc:expr, $what:expr) => {{
        let svc = $svc;
        match $what {
            // an observer / operator is never made to wait by the breaker: each of these takes the breaker's mutex
            // for one short critical section. "blocked" = the mutex is held across somebody's await.
            "force_open" => svc.force_open().now_or_never().map_or(BLOCKED.to_string(), |_| String::new()),
            "force_closed" => svc.force_closed().now_or_never().map_or(BLOCKED.to_string(), |_| String::new()),
            "reset" => svc.reset().now_or_never().map_or(BLOCKED.to_string(), |_| String::new()),
            _ => match (svc.state().now_or_never(), svc.metrics().now_or_never()) {
                (Some(state), Some(m)) => views(state, svc.state_sync(), svc.is_open(), m),
                _ => BLOCKED.to_string(),
            },
        }
    }};
}

macro_rules! controls {
    ($svc:expr) => {{
        let svc = $svc.clone();
        Box::new(move |what: &str| -> String { ctl_on!(&svc, what) }) as Box<dyn Fn(&str) -> String>
    }};
}

/// The fallback variant. `early` bit 0: manual overrides and probes go through a clone of the plain breaker taken before
/// `with_fallback`; bit 1: `with_fallback` happens when the first request arrives, until then the operator acts on the plain
/// breaker. Whatever the order, there is ONE breaker: the fallback service shares the state of the breaker it was made from.
macro_rules! with_fb {
    ($plain:expr, $fb:expr, $early:expr) => {{
        let early: u64 = $early;
        let plain = $plain;
        let fb = $fb;
        let operator = if early & 1 == 1 { Some(plain.clone()) } else { None };
        let pending = std::rc::Rc::new(std::cell::RefCell::new(Some(plain)));
        let attached = std::rc::Rc::new(std::cell::RefCell::new(None));
        let attach: std::rc::Rc<dyn Fn()> = {
            let (pending, attached) = (pending.clone(), attached.clone());
            std::rc::Rc::new(move || {
                let p = pending.borrow_mut().take();
                if let Some(p) = p {
                    *attached.borrow_mut() = Some(p.with_fallback(fb));
                }
            })
        };
        if early & 2 == 0 {
            attach();
        }
        let call = {
            let (attach, attached) = (attach.clone(), attached.clone());
            Box::new(move |req: Req| -> Option<CallFut> {
                attach();
                let mut s = attached.borrow().as_ref().expect("attached").clone();
                let c = req.c;
                match poll_ready_once(&mut s) {
                    std::task::Poll::Ready(Ok(())) => {}
                    _ => {
                        log(format!("result {} notready", c));
                        return None;
                    }
                }
                let fut = s.call(req);
                Some(held(fut, render))
            }) as Box<dyn FnMut(Req) -> Option<CallFut>>
        };
        let ctl = {
            let (pending, attached) = (pending.clone(), attached.clone());
            Box::new(move |what: &str| -> String {
                if let Some(o) = operator.as_ref() {
                    return ctl_on!(o, what);
                }
                if let Some(p) = pending.borrow().as_ref() {
                    return ctl_on!(p, what);
                }
                let a = attached.borrow();
                ctl_on!(a.as_ref().expect("attached"), what)
            }) as Box<dyn Fn(&str) -> String>
        };
        let req = {
            let (attach, attached) = (attach.clone(), attached.clone());
            std::rc::Rc::new(move |c: usize, kv: &Kv| -> Option<CallFut> {
                if let Some(step) = kv.get("fb").and_then(|s| parse_plan(s).pop_front()) {
                    FB.lock().unwrap_or_else(|e| e.into_inner()).insert(c, step);
                }
                attach();
                let mut s = attached.borrow().as_ref().expect("attached").clone();
                match poll_ready_once(&mut s) {
                    std::task::Poll::Ready(Ok(())) => {}
                    _ => {
                        log(format!("result {} notready", c));
                        return None;
                    }
                }
                Some(held(s.call(Req::new(c, kv)), render))
            }) as Requester
        };
        Adapter { call, ctl, req }
    }};
}

macro_rules! caller {
    ($svc:expr) => {{
        let svc = $svc.clone();
        Box::new(move |req: Req| -> Option<CallFut> {
            let mut s = svc.clone();
            let c = req.c;
            match poll_ready_once(&mut s) {
                std::task::Poll::Ready(Ok(())) => {}
                _ => {
                    log(format!("result {} notready", c));
                    return None;
                }
            }
            let fut = s.call(req);
            Some(held(fut, render))
        }) as Box<dyn FnMut(Req) -> Option<CallFut>>
    }};
}

/// `manual ondrop c=<c> by=<c2> <arrive words>`: c2 arrives — clone of the breaker, `poll_ready`, `call`, exactly as
/// `arrive` does — from inside the destructor of the unfinished inner call of c, i.e. while a cancelled call (a trial of a
/// half-open episode, or an ordinary call) is still being torn down inside the wrapped service.
macro_rules! requester {
    ($svc:expr) => {{
        let svc = $svc.clone();
        std::rc::Rc::new(move |c: usize, kv: &Kv| -> Option<CallFut> {
            if let Some(step) = kv.get("fb").and_then(|s| parse_plan(s).pop_front()) {
                FB.lock().unwrap_or_else(|e| e.into_inner()).insert(c, step);
            }
            let mut s = svc.clone();
            match poll_ready_once(&mut s) {
                std::task::Poll::Ready(Ok(())) => {}
                _ => {
                    log(format!("result {} notready", c));
                    return None;
                }
            }
            Some(held(s.call(Req::new(c, kv)), render))
        }) as Requester
    }};
}

impl Adapter {
    pub fn new(kv: &Kv) -> Adapter {
        FB.lock().unwrap_or_else(|e| e.into_inner()).clear();
        let cls = kv.u64("cls", 0);
        let mut b = CircuitBreakerLayer::builder()
            .failure_rate_threshold(frac(kv, "fr", (1, 2)))
            .sliding_window_size(kv.u64("size", 10) as usize)
            // `wait=max`: "stay open until a manual reset" — the largest representable duration
            .wait_duration_in_open(if kv.str("wait", "") == "max" { Duration::MAX } else { ticks(kv.u64("wait", 1000)) })
            .permitted_calls_in_half_open(kv.u64("permitted", 1) as usize);
        if kv.u64("listen", 1) != 0 {
            b = b.on_state_transition(|from, to| log(format!("transition {} {}", st(from), st(to))));
        }
        if kv.str("wtype", "count") == "time" {
            b = b
                .sliding_window_type(SlidingWindowType::TimeBased)
                .sliding_window_duration(ticks(kv.u64("wdur", 1000)));
        }
        if let Some(m) = kv.opt_u64("min") {
            b = b.minimum_number_of_calls(m as usize);
        }
        if let Some(n) = kv.opt_u64("slow") {
            b = b
                .slow_call_duration_threshold(ticks(n))
                .slow_call_rate_threshold(frac(kv, "sr", (1, 1)));
        }
        let fallback = kv.u64("fallback", 0) == 1;
        let early = kv.u64("early", 0);
        let fb = |req: Req| -> BoxFuture<'static, Result<Resp, IErr>> {
            let step = FB.lock().unwrap_or_else(|e| e.into_inner()).remove(&req.c).unwrap_or(Step { lat: 0, out: Out::Ok });
            log(format!("fallback_call {}", req.c));
            let sleep = if step.lat > 0 { Some(Box::pin(tokio::time::sleep(Duration::from_millis(step.lat)))) } else { None };
            Box::pin(FbFut { sleep, c: req.c, tag: req.tag, out: step.out, done: false })
        };
        if cls == 0 {
            let svc = b.build().layer_fn(Inner::new());
            if fallback {
                with_fb!(svc, fb, early)
            } else {
                Adapter { call: caller!(svc), ctl: controls!(svc), req: requester!(svc) }
            }
        } else {
            // custom classifiers: 1 = only error kind 1 is a failure; 2 = errors and responses to odd tags are failures
            let b = b.failure_classifier(move |r: &Result<Resp, IErr>| match (cls, r) {
                (1, Err(e)) => e.kind == 1,
                (1, Ok(_)) => false,
                (_, Err(_)) => true,
                (_, Ok(x)) => x.tag % 2 == 1,
            });
            let svc = b.build().layer_fn(Inner::new());
            if fallback {
                with_fb!(svc, fb, early)
            } else {
                Adapter { call: caller!(svc), ctl: controls!(svc), req: requester!(svc) }
            }
        }
    }
}

impl Mw for Adapter {
    fn arrive(&mut self, c: usize, kv: &Kv) -> Option<CallFut> {
        if let Some(step) = kv.get("fb").and_then(|s| parse_plan(s).pop_front()) {
            FB.lock().unwrap_or_else(|e| e.into_inner()).insert(c, step);
        }
        (self.call)(Req::new(c, kv))
    }
    fn requester(&self) -> Option<Requester> {
        Some(self.req.clone())
    }
    fn probe(&mut self, what: &str, _kv: &Kv) {
        let s = (self.ctl)(what);
        log(format!("probe {}", s));
    }
    fn manual(&mut self, what: &str, _kv: &Kv) {
        log(format!("manual {}", what));
        if (self.ctl)(what) == BLOCKED {
            log(format!("manual_blocked {}", what));
        }
    }
}
