//! C03 / C04 / C09: the real `CircuitBreakerLayer` (with and without fallback) over the scripted inner service.
//!
//! header options (defaults leave old op files their meaning):
//!   listen=0   the breaker is built with NO `on_state_transition` listener: the log has no `transition` lines, the breaker is
//!              observed only through results, `state()` / metrics probes and the inner calls
//!   early=<k>  (with `fallback=1`) bit 0: a clone of the plain breaker taken BEFORE `with_fallback` is kept (an operator's /
//!              health check's handle) and every manual override and probe goes through that earlier clone; bit 1: the fallback
//!              is attached only when the first request arrives — overrides and probes before that act on the plain breaker
//!   tick=us    one clock tick is 1 µs: `wait`, `wdur`, `slow` are in ticks (`world::ticks`); the breaker is timed by
//!              `std::time::Instant` alone. Scripted latencies (`inner=`, `fb=`) stay in MILLISECONDS: they are tokio timers,
//!              which fire at the first millisecond boundary >= start + latency.
//!   preset=<builder|fn|standard|fast_fail|tolerant>   where the builder comes from: `CircuitBreakerLayer::builder()` (default),
//!              `circuit_breaker_builder()`, or one of the preset constructors. With `preset=` (or `chain=`) only the settings
//!              that are written are applied on top of it; without either the classic keys are all applied with the harness
//!              defaults (fr=1/2 size=10 wait=1000 permitted=1), as before.
//!   chain=<i1,i2,…>  the builder chain itself, left to right (replaces fr/size/wait/permitted/wtype/wdur/min/slow/sr/cls/listen):
//!              fr:a/b size:n wait:n|max perm:n wtype:time|count wdur:n|max min:n slow:n sr:a/b name:x
//!              (`wdur:max` / header `wdur=max`: `sliding_window_duration(Duration::MAX)`, a time window nothing ever leaves)
//!              lis:tr|slow|permitted|rejected|success|failure   (on_state_transition — logs `transition a b` —, on_slow_call —
//!              meta line `#slow <ticks>` —, on_call_permitted, … : listeners that do nothing)
//!              lis:trs  an `on_state_transition` listener that ALSO reads `state_sync()` of the breaker it is called for, inside
//!                      its callback, and logs `transition a b sync=<what it read>` (classic header: `listen=2`)
//!              cls:k   `failure_classifier(..)` (k as the header's `cls`: 0 errors, 1 only error kind 1, 2 errors + odd tags)
//!              clsr:k  `classify_response(..)`: the wrapped service then has `Error = Infallible` and answers
//!                      `Ok(Result<Resp, IErr>)` (errors encoded in the response); at most one `clsr`, and no `cls`, per chain
//!              `chain=-` = no setter at all.
//!   via=<layer_fn|layer|for_request>   how a service is made from the layer value: `layer.layer_fn(inner)` (default),
//!              `Layer::layer(&layer, inner)`, `layer.for_request::<Req>().layer(inner)` (deprecated path)
//!
//! per-operation options:
//!   svc=<k>    (arrive / manual / probe; default 0) several services built from ONE layer value: service k is built lazily, the
//!              first time it is named, from the same layer (odd k: from a clone of the layer taken at that moment, i.e. after
//!              other services were built); every service wraps its own scripted inner service. `manual`/`probe` lines of a
//!              service k > 0 are logged with ` svc=k` appended.
//!   h=<j>      (arrive) the request is made on the PERSISTENT handle j of the service (a clone taken lazily at its first use and
//!              kept: `h.ready(); h.call(); … h.ready(); h.call()`) instead of a fresh clone that is dropped at once
//!
//! manual operations beyond force_open / force_closed / reset:
//!   inner_down / inner_up / inner_fail   readiness of the wrapped service of that breaker: `poll_ready` is Pending (the waker
//!              is kept and woken by `inner_up`) / passes to the scripted service / fails with `IErr{9,0}` (`clsr` chains:
//!              `Infallible` cannot fail, treated as down). A request arriving while it is not ready: `result c notready`
//!              (the caller gives up) / `result c err:inner9:0`. A call future already created keeps its (ready) instance.
//!   trigger_unhealthy / trigger_healthy   `HealthTriggerable` (cargo feature `health-integration`): synchronous, spawns a task
//!              that applies `force_open` / `force_closed`. The task is spawned on a runtime of its own that only runs when
//!              told to, so that WHEN the scheduler gets to it is an operation:
//!   yield      the tasks spawned so far by the triggers of that service run (in spawn order)
//!   contend ev=<rejected|permitted|success|failure|transition> st=<open|closed>
//!              a bounded REAL-THREAD scenario on a breaker of its own, built from the case's configuration (the same builder
//!              chain; classifier and logging listeners left out) over a counting inner service, with the case's fallback
//!              setting: the breaker is put in state `st` (force_open), then OS thread A performs one operation on a clone —
//!              a call (ev = rejected / permitted / success / failure) or an override (ev = transition: force_open of a closed,
//!              force_closed of an open breaker) — whose `on_<ev>` listener PARKS inside the circuit's critical section (event
//!              listeners run under the breaker's mutex). While A is parked there, this thread makes a request B on another
//!              clone and polls it ONCE; then A is released and joined and B is driven to completion. Deterministic (channels,
//!              no clock, no sleep). Nothing of it touches the case's own breaker; the outcome is the meta line
//!              `#contend ev= st= fb= parked= open_during= open_after= first= inner_during= b= b_inner= a=`
//!              (open_*: `is_open()` while A is parked / after both have finished; first: B's first poll; inner_during / b_inner:
//!              how often B's request had reached the inner service by then / in the end).
use crate::world::*;
use futures::future::BoxFuture;
use futures::FutureExt;
use std::cell::RefCell;
use std::collections::BTreeMap;
use std::convert::Infallible;
use std::future::Future;
use std::pin::Pin;
use std::rc::Rc;
use std::sync::atomic::{AtomicBool, Ordering as AtOrd};
use std::sync::{mpsc, Arc, Mutex};
use std::task::{Context, Poll, Waker};
use std::time::Duration;
use tower::{Layer, Service};
use tower_resilience_circuitbreaker::{
    circuit_breaker_builder, CircuitBreaker, CircuitBreakerConfigBuilder, CircuitBreakerError, CircuitBreakerLayer, CircuitMetrics,
    CircuitState, DefaultClassifier, FailureClassifierTrait, FnClassifier, SlidingWindowType,
};
use tower_resilience_core::HealthTriggerable;

type Services = Rc<RefCell<BTreeMap<u64, One>>>;

/// What a listener can do from inside its callback: read the lock-free view of the breaker it was called for. The listener is
/// registered on the builder, before any service exists, and is shared by every service made from the layer: `PEEK[k]` reads
/// `state_sync()` of service k, `CUR_SVC` is the service on whose behalf the code that is running now was entered (set by
/// every entry point of the adapter and by every poll of a call future). Statics, not thread-locals: the tasks of the health
/// triggers run on a helper thread.
static PEEK: Mutex<BTreeMap<u64, Box<dyn Fn() -> CircuitState + Send + Sync>>> = Mutex::new(BTreeMap::new());
static CUR_SVC: std::sync::atomic::AtomicU64 = std::sync::atomic::AtomicU64::new(0);

fn enter_svc(k: u64) {
    CUR_SVC.store(k, std::sync::atomic::Ordering::SeqCst);
}

fn peek_sync() -> &'static str {
    let k = CUR_SVC.load(std::sync::atomic::Ordering::SeqCst);
    match PEEK.lock().unwrap_or_else(|e| e.into_inner()).get(&k) {
        Some(f) => st(f()),
        None => "?",
    }
}

/// the call future of a request made on service k: whatever it does when polled, it does on behalf of service k
struct InSvc {
    k: u64,
    fut: CallFut,
}
impl Future for InSvc {
    type Output = String;
    fn poll(mut self: Pin<&mut Self>, cx: &mut Context<'_>) -> Poll<String> {
        enter_svc(self.k);
        self.fut.as_mut().poll(cx)
    }
}

pub struct Adapter {
    svcs: Services,
    make: Rc<dyn Fn(u64) -> One>,
    /// the case header (`manual contend` builds a breaker of its own from it)
    hdr: Kv,
}

/// one service built from the layer
struct One {
    call: Box<dyn FnMut(Req, Option<u64>) -> Option<CallFut>>,
    ctl: Box<dyn Fn(&str) -> String>,
    gate: GateCtl,
    tasks: Tasks,
}

/// Scripted behaviour of the fallback of caller `c` (`arrive <c> … fb=<lat>:<ok|errK|panic|never>`, default `0:ok`):
/// the fallback is a future of its own (a replica read, a remote cache) that need not finish on its first poll.
static FB: Mutex<BTreeMap<usize, Step>> = Mutex::new(BTreeMap::new());

/// The fallback's future. `fallback_call c` is logged when the handler is invoked (latency counts from there),
/// `fallback_drop c` when the future is dropped before it finished; its value is the caller's result.
struct FbFut {
    sleep: Option<Pin<Box<tokio::time::Sleep>>>,
    c: usize,
    tag: u64,
    out: Out,
    done: bool,
}
impl Future for FbFut {
    type Output = Result<Resp, IErr>;
    fn poll(mut self: Pin<&mut Self>, cx: &mut Context<'_>) -> Poll<Self::Output> {
        if self.done {
            panic!("fallback future polled after completion");
        }
        if self.out == Out::Never || self.out == Out::Hog {
            return Poll::Pending;
        }
        if let Some(s) = self.sleep.as_mut() {
            if s.as_mut().poll(cx).is_pending() {
                return Poll::Pending;
            }
        }
        self.done = true;
        let c = self.c;
        match self.out {
            Out::Ok => Poll::Ready(Ok(Resp { v: 900_000 + c as u64, c, tag: self.tag })),
            Out::Err(kind) => Poll::Ready(Err(IErr { kind, v: c as u64 })),
            _ => panic!("scripted fallback panic"),
        }
    }
}
impl Drop for FbFut {
    fn drop(&mut self) {
        if !self.done {
            log(format!("fallback_drop {}", self.c));
        }
    }
}

fn fallback_future(req: Req) -> FbFut {
    let step = FB.lock().unwrap_or_else(|e| e.into_inner()).remove(&req.c).unwrap_or(Step { lat: 0, out: Out::Ok });
    log(format!("fallback_call {}", req.c));
    let sleep = if step.lat > 0 { Some(Box::pin(tokio::time::sleep(Duration::from_millis(step.lat)))) } else { None };
    FbFut { sleep, c: req.c, tag: req.tag, out: step.out, done: false }
}

fn frac_of(s: &str, d: (u64, u64)) -> f64 {
    let dflt = format!("{}/{}", d.0, d.1);
    let s = if s.is_empty() { dflt.as_str() } else { s };
    let (a, b) = s.split_once('/').unwrap_or(("1", "2"));
    a.parse::<f64>().unwrap_or(1.0) / b.parse::<f64>().unwrap_or(2.0)
}

fn st(s: CircuitState) -> &'static str {
    match s {
        CircuitState::Closed => "closed",
        CircuitState::Open => "open",
        CircuitState::HalfOpen => "halfopen",
    }
}

pub fn render(r: Result<Resp, CircuitBreakerError<IErr>>) -> String {
    match r {
        Ok(x) if x.v >= 900_000 => format!("ok:fallback:{}", x.v - 900_000),
        Ok(x) => format!("ok:{}", x.v),
        // through the error's own accessors (`is_circuit_open`, `into_inner`), the way callers tell the two apart
        Err(e) => {
            let open = e.is_circuit_open();
            match (open, e.into_inner()) {
                (true, None) => "err:open".into(),
                (false, Some(i)) => format!("err:inner{}:{}", i.kind, i.v),
                (o, i) => format!("err:inconsistent:open={}:inner={}", o as u8, i.is_some() as u8),
            }
        }
    }
}

/// the same grammar for a service whose errors are encoded in the response (`classify_response`)
fn render_r(r: Result<Result<Resp, IErr>, CircuitBreakerError<Infallible>>) -> String {
    match r {
        Ok(x) => render(x.map_err(CircuitBreakerError::Inner)),
        Err(CircuitBreakerError::OpenCircuit) => "err:open".into(),
        Err(CircuitBreakerError::Inner(never)) => match never {},
    }
}

fn views(state: CircuitState, sync: CircuitState, is_open: bool, m: CircuitMetrics, http: u16, health: &str) -> String {
    format!(
        "views state={} sync={} is_open={} mstate={} total={} fail={} succ={} slow={} http={} health={}",
        st(state), st(sync), is_open as u8, st(m.state), m.total_calls, m.failure_count, m.success_count, m.slow_call_count, http, health
    )
}

const BLOCKED: &str = "blocked";

// ------------------------------------------------------------------ readiness of the wrapped service

#[derive(Default)]
struct GateSt {
    /// 0 up, 1 down (pending), 2 failing
    mode: u8,
    wakers: Vec<Waker>,
}
#[derive(Clone, Default)]
struct GateCtl(Arc<Mutex<GateSt>>);
impl GateCtl {
    fn set(&self, mode: u8) {
        let ws = {
            let mut g = self.0.lock().unwrap_or_else(|e| e.into_inner());
            g.mode = mode;
            if mode == 1 { Vec::new() } else { std::mem::take(&mut g.wakers) }
        };
        for w in ws {
            w.wake();
        }
    }
}

/// the scripted inner service behind a readiness gate operated by `manual inner_down / inner_up / inner_fail`
#[derive(Clone)]
struct Gate {
    inner: Inner,
    ctl: GateCtl,
}
impl Gate {
    fn gate(&mut self, cx: &mut Context<'_>, can_fail: bool) -> Poll<Result<(), IErr>> {
        {
            let mut g = self.ctl.0.lock().unwrap_or_else(|e| e.into_inner());
            if g.mode == 1 || (g.mode == 2 && !can_fail) {
                g.wakers.push(cx.waker().clone());
                return Poll::Pending;
            }
            if g.mode == 2 {
                return Poll::Ready(Err(IErr { kind: 9, v: 0 }));
            }
        }
        self.inner.poll_ready(cx)
    }
}
impl Service<Req> for Gate {
    type Response = Resp;
    type Error = IErr;
    type Future = InnerFut;
    fn poll_ready(&mut self, cx: &mut Context<'_>) -> Poll<Result<(), IErr>> {
        self.gate(cx, true)
    }
    fn call(&mut self, req: Req) -> InnerFut {
        self.inner.call(req)
    }
}

/// the same service with its errors encoded in the response: `Error = Infallible` (what `classify_response` is for)
#[derive(Clone)]
struct Infal(Gate);
impl Service<Req> for Infal {
    type Response = Result<Resp, IErr>;
    type Error = Infallible;
    type Future = futures::future::Map<InnerFut, fn(Result<Resp, IErr>) -> Result<Result<Resp, IErr>, Infallible>>;
    fn poll_ready(&mut self, cx: &mut Context<'_>) -> Poll<Result<(), Infallible>> {
        match self.0.gate(cx, false) {
            Poll::Pending => Poll::Pending,
            Poll::Ready(_) => Poll::Ready(Ok(())),
        }
    }
    fn call(&mut self, req: Req) -> Self::Future {
        self.0.inner.call(req).map(Ok as fn(Result<Resp, IErr>) -> Result<Result<Resp, IErr>, Infallible>)
    }
}

// ------------------------------------------------------------------ tasks spawned by the health triggers

/// `HealthTriggerable::trigger_*` are synchronous and `tokio::spawn` a task that takes the breaker's lock and applies the
/// override. The task is spawned on a current-thread runtime of its own (created at the first trigger) which runs only
/// inside `run` (`manual yield`): until then the task has been spawned and not yet scheduled.
#[derive(Clone, Default)]
struct Tasks(Rc<RefCell<Option<tokio::runtime::Runtime>>>);
impl Tasks {
    fn within<R>(&self, f: impl FnOnce() -> R) -> R {
        let mut slot = self.0.borrow_mut();
        let rt = slot.get_or_insert_with(|| tokio::runtime::Builder::new_current_thread().build().expect("task runtime"));
        let _g = rt.enter();
        f()
    }
    fn run(&self) {
        let slot = self.0.borrow();
        if let Some(rt) = slot.as_ref() {
            // a runtime cannot be driven from inside another one's task: a helper thread does it while this one waits
            let _busy = Busy::new();
            std::thread::scope(|s| {
                s.spawn(|| {
                    rt.block_on(async {
                        for _ in 0..8 {
                            tokio::task::yield_now().await;
                        }
                    })
                });
            });
        }
    }
}
impl Drop for Tasks {
    fn drop(&mut self) {
        if Rc::strong_count(&self.0) == 1 {
            if let Some(rt) = self.0.borrow_mut().take() {
                rt.shutdown_background();
            }
        }
    }
}

// ------------------------------------------------------------------ operating one breaker

macro_rules! ctl_on {
    ($svc:expr, $what:expr, $tasks:expr) => {{
        let svc = $svc;
        match $what {
            // an observer / operator is never made to wait by the breaker: each of these takes the breaker's mutex
            // for one short critical section. "blocked" = the mutex is held across somebody's await.
            "force_open" => svc.force_open().now_or_never().map_or(BLOCKED.to_string(), |_| String::new()),
            "force_closed" => svc.force_closed().now_or_never().map_or(BLOCKED.to_string(), |_| String::new()),
            "reset" => svc.reset().now_or_never().map_or(BLOCKED.to_string(), |_| String::new()),
            "trigger_unhealthy" => {
                $tasks.within(|| HealthTriggerable::trigger_unhealthy(svc));
                String::new()
            }
            "trigger_healthy" => {
                $tasks.within(|| HealthTriggerable::trigger_healthy(svc));
                String::new()
            }
            "views" => match (svc.state().now_or_never(), svc.metrics().now_or_never()) {
                (Some(state), Some(m)) => views(state, svc.state_sync(), svc.is_open(), m, svc.http_status(), svc.health_status()),
                _ => BLOCKED.to_string(),
            },
            _ => String::new(),
        }
    }};
}

/// a request the way a caller makes it: `poll_ready` once, then `call`
macro_rules! request_on {
    ($s:expr, $req:expr, $render:expr) => {{
        let s = $s;
        let req: Req = $req;
        let c = req.c;
        match poll_ready_once(s) {
            Poll::Ready(Ok(())) => Some(held(s.call(req), $render)),
            Poll::Ready(Err(e)) => {
                log(format!("result {} {}", c, $render(Err(e))));
                None
            }
            Poll::Pending => {
                log(format!("result {} notready", c));
                None
            }
        }
    }};
}

/// One service made from the layer: the plain breaker, or — `fallback=1` — the fallback variant. `early` bit 0: manual
/// overrides and probes go through a clone of the plain breaker taken before `with_fallback`; bit 1: `with_fallback` happens
/// when the first request arrives, until then the operator acts on the plain breaker. Whatever the order, there is ONE
/// breaker per service: the fallback service shares the state of the breaker it was made from.
fn one<S, C, Rsp, E>(
    k: u64,
    plain: CircuitBreaker<S, C>,
    gate: GateCtl,
    fallback: bool,
    early: u64,
    fbwrap: fn(Result<Resp, IErr>) -> Result<Rsp, E>,
    render: fn(Result<Rsp, CircuitBreakerError<E>>) -> String,
) -> One
where
    S: Service<Req, Response = Rsp, Error = E> + Clone + Send + Sync + 'static,
    S::Future: Send + 'static,
    C: FailureClassifierTrait<Rsp, E> + Send + Sync + 'static,
    Rsp: Send + Sync + 'static,
    E: Send + Sync + 'static,
{
    let tasks = Tasks::default();
    {
        // the fallback variant made from `plain` later shares its lock-free view
        let viewer = plain.clone();
        PEEK.lock().unwrap_or_else(|e| e.into_inner()).insert(k, Box::new(move || viewer.state_sync()));
    }
    if !fallback {
        let call = {
            let svc = plain.clone();
            let mut handles: BTreeMap<u64, CircuitBreaker<S, C>> = BTreeMap::new();
            Box::new(move |req: Req, h: Option<u64>| -> Option<CallFut> {
                match h {
                    Some(j) => request_on!(handles.entry(j).or_insert_with(|| svc.clone()), req, render),
                    None => request_on!(&mut svc.clone(), req, render),
                }
            }) as Box<dyn FnMut(Req, Option<u64>) -> Option<CallFut>>
        };
        let ctl = {
            let tasks = tasks.clone();
            Box::new(move |what: &str| -> String { ctl_on!(&plain, what, tasks) }) as Box<dyn Fn(&str) -> String>
        };
        return One { call, ctl, gate, tasks };
    }
    let fb = move |req: Req| -> BoxFuture<'static, Result<Rsp, E>> { Box::pin(fallback_future(req).map(fbwrap)) };
    let operator = if early & 1 == 1 { Some(plain.clone()) } else { None };
    let pending = Rc::new(RefCell::new(Some(plain)));
    let attached = Rc::new(RefCell::new(None));
    let attach: Rc<dyn Fn()> = {
        let (pending, attached) = (pending.clone(), attached.clone());
        Rc::new(move || {
            let p = pending.borrow_mut().take();
            if let Some(p) = p {
                *attached.borrow_mut() = Some(p.with_fallback(fb));
            }
        })
    };
    if early & 2 == 0 {
        attach();
    }
    let call = {
        let (attach, attached) = (attach.clone(), attached.clone());
        let mut handles = BTreeMap::new();
        Box::new(move |req: Req, h: Option<u64>| -> Option<CallFut> {
            attach();
            let fresh = || attached.borrow().as_ref().expect("attached").clone();
            match h {
                Some(j) => request_on!(handles.entry(j).or_insert_with(fresh), req, render),
                None => request_on!(&mut fresh(), req, render),
            }
        }) as Box<dyn FnMut(Req, Option<u64>) -> Option<CallFut>>
    };
    let ctl = {
        let tasks = tasks.clone();
        Box::new(move |what: &str| -> String {
            if let Some(o) = operator.as_ref() {
                return ctl_on!(o, what, tasks);
            }
            if let Some(p) = pending.borrow().as_ref() {
                return ctl_on!(p, what, tasks);
            }
            let a = attached.borrow();
            ctl_on!(a.as_ref().expect("attached"), what, tasks)
        }) as Box<dyn Fn(&str) -> String>
    };
    One { call, ctl, gate, tasks }
}

// ------------------------------------------------------------------ a request while another THREAD is inside the circuit

/// the listener that parks: the first invocation after `armed` was set tells the main thread (1) and waits to be released
struct Park {
    armed: AtomicBool,
    note: Mutex<mpsc::Sender<u8>>,
    release: Mutex<mpsc::Receiver<()>>,
}
impl Park {
    fn park(&self) {
        if self.armed.swap(false, AtOrd::SeqCst) {
            let _ = self.note.lock().unwrap_or_else(|e| e.into_inner()).send(1);
            let _ = self.release.lock().unwrap_or_else(|e| e.into_inner()).recv();
        }
    }
}

/// inner service of the scenario: answers at once, remembers which requests reached it; request 1 fails if told to
#[derive(Clone)]
struct Counting(Arc<Mutex<Vec<u32>>>, bool);
impl Service<u32> for Counting {
    type Response = u32;
    type Error = IErr;
    type Future = std::future::Ready<Result<u32, IErr>>;
    fn poll_ready(&mut self, _cx: &mut Context<'_>) -> Poll<Result<(), IErr>> {
        Poll::Ready(Ok(()))
    }
    fn call(&mut self, req: u32) -> Self::Future {
        self.0.lock().unwrap_or_else(|e| e.into_inner()).push(req);
        std::future::ready(if req == 1 && self.1 { Err(IErr { kind: 1, v: 0 }) } else { Ok(req) })
    }
}

fn rend(r: Result<u32, CircuitBreakerError<IErr>>) -> String {
    match r {
        Ok(v) if v >= 900_000 => "ok:fallback".into(),
        Ok(_) => "ok".into(),
        Err(CircuitBreakerError::OpenCircuit) => "err:open".into(),
        Err(CircuitBreakerError::Inner(e)) => format!("err:inner{}", e.kind),
    }
}

/// `manual contend …` (see the module header)
fn contend(hdr: &Kv, kv: &Kv) {
    let _busy = Busy::new();
    let ev = kv.str("ev", "rejected");
    let open = kv.str("st", "open") == "open";
    let fb = hdr.u64("fallback", 0) == 1;
    let (note_tx, note_rx) = mpsc::channel::<u8>();
    let (release_tx, release_rx) = mpsc::channel::<()>();
    let park = Arc::new(Park { armed: AtomicBool::new(false), note: Mutex::new(note_tx.clone()), release: Mutex::new(release_rx) });
    let mut b = start(hdr);
    for it in chain_items(hdr) {
        if !it.starts_with("cls") && !it.starts_with("lis:") {
            b = plain_setter(b, &it);
        }
    }
    let p = park.clone();
    let b = match ev.as_str() {
        "rejected" => b.on_call_rejected(move || p.park()),
        "permitted" => b.on_call_permitted(move |_| p.park()),
        "success" => b.on_success(move |_| p.park()),
        "failure" => b.on_failure(move |_| p.park()),
        _ => b.on_state_transition(move |_, _| p.park()),
    };
    let seen = Arc::new(Mutex::new(Vec::new()));
    let plain = b.build().layer_fn(Counting(seen.clone(), ev == "failure"));
    let ctl = plain.clone();
    let line = if fb {
        let svc = plain.with_fallback(|req: u32| -> BoxFuture<'static, Result<u32, IErr>> { Box::pin(async move { Ok(900_000 + req) }) });
        contend_on(svc, ctl, &park, note_tx, note_rx, release_tx, &seen, &ev, open)
    } else {
        contend_on(plain, ctl, &park, note_tx, note_rx, release_tx, &seen, &ev, open)
    };
    log_raw(format!("#contend ev={} st={} fb={} {}", ev, if open { "open" } else { "closed" }, fb as u8, line));
}

#[allow(clippy::too_many_arguments)]
fn contend_on<S>(
    svc: S,
    ctl: CircuitBreaker<Counting, DefaultClassifier>,
    park: &Arc<Park>,
    note_tx: mpsc::Sender<u8>,
    note_rx: mpsc::Receiver<u8>,
    release_tx: mpsc::Sender<()>,
    seen: &Arc<Mutex<Vec<u32>>>,
    ev: &str,
    open: bool,
) -> String
where
    S: Service<u32, Response = u32, Error = CircuitBreakerError<IErr>> + Clone + Send + 'static,
    S::Future: Send + 'static,
{
    let count_b = || seen.lock().unwrap_or_else(|e| e.into_inner()).iter().filter(|x| **x == 2).count();
    if open {
        let _ = ctl.force_open().now_or_never();
    }
    park.armed.store(true, AtOrd::SeqCst);
    let waker = futures::task::noop_waker();
    let mut cx = Context::from_waker(&waker);
    let (mut parked, mut open_during, mut first, mut during) = (false, false, String::from("-"), 0usize);
    let mut b = String::from("-");
    let mut fut_b: Option<Pin<Box<S::Future>>> = None;
    let a = std::thread::scope(|s| {
        let mut a_svc = svc.clone();
        let ctl_a = ctl.clone();
        let transition = ev == "transition";
        let h = s.spawn(move || {
            let r = if transition {
                futures::executor::block_on(async {
                    if open {
                        ctl_a.force_closed().await
                    } else {
                        ctl_a.force_open().await
                    }
                });
                "override".to_string()
            } else {
                rend(futures::executor::block_on(async {
                    futures::future::poll_fn(|cx| a_svc.poll_ready(cx)).await?;
                    a_svc.call(1).await
                }))
            };
            let _ = note_tx.send(2);
            r
        });
        parked = note_rx.recv() == Ok(1);
        if parked {
            // thread A is inside the circuit's critical section, in its listener
            open_during = ctl.is_open();
            let mut b_svc = svc.clone();
            match b_svc.poll_ready(&mut cx) {
                Poll::Ready(Ok(())) => {
                    let mut f = Box::pin(b_svc.call(2));
                    match f.as_mut().poll(&mut cx) {
                        Poll::Ready(r) => first = rend(r),
                        Poll::Pending => {
                            first = "pending".into();
                            fut_b = Some(f);
                        }
                    }
                }
                _ => first = "notready".into(),
            }
            during = count_b();
            let _ = release_tx.send(());
            // the breaker's mutex is fair: B, queued behind A's critical section, is handed the lock next, and A needs it again
            // to record its outcome — so B is driven here, on this thread, while A finishes on its own
            let mut rounds = 0u32;
            while !(h.is_finished() && fut_b.is_none()) && rounds < 5_000_000 {
                if let Some(f) = fut_b.as_mut() {
                    if let Poll::Ready(r) = f.as_mut().poll(&mut cx) {
                        b = rend(r);
                        fut_b = None;
                    }
                }
                std::thread::yield_now();
                rounds += 1;
            }
        }
        h.join().unwrap_or_else(|_| "panic".to_string())
    });
    // nobody parks any more
    park.armed.store(false, AtOrd::SeqCst);
    let open_after = ctl.is_open();
    if b == "-" {
        b = first.clone();
    }
    format!(
        "parked={} open_during={} open_after={} first={} inner_during={} b={} b_inner={} a={}",
        parked as u8, open_during as u8, open_after as u8, first, during, b, count_b(), a
    )
}

// ------------------------------------------------------------------ the builder chain

type Bld<C> = CircuitBreakerConfigBuilder<C>;
/// a classifier type that is `Clone` (the layer's `layer_fn`, `for_request` and `Clone` require it of the classifier)
type ClsFn = fn(&Result<Resp, IErr>) -> bool;

/// custom classifiers: 1 = only error kind 1 is a failure; 2 = errors and responses to odd tags are failures; other = errors
fn classifier(cls: u64) -> ClsFn {
    fn errors(r: &Result<Resp, IErr>) -> bool {
        r.is_err()
    }
    fn kind1(r: &Result<Resp, IErr>) -> bool {
        matches!(r, Err(e) if e.kind == 1)
    }
    fn errors_and_odd(r: &Result<Resp, IErr>) -> bool {
        match r {
            Err(_) => true,
            Ok(x) => x.tag % 2 == 1,
        }
    }
    match cls {
        1 => kind1,
        2 => errors_and_odd,
        _ => errors,
    }
}

fn num(v: &str) -> u64 {
    v.parse().unwrap_or(0)
}

/// a setter that does not change the builder's type
fn plain_setter<C>(b: Bld<C>, item: &str) -> Bld<C> {
    let (k, v) = item.split_once(':').unwrap_or((item, ""));
    match k {
        "fr" => b.failure_rate_threshold(frac_of(v, (1, 2))),
        "size" => b.sliding_window_size(num(v) as usize),
        // `wait:max`: "stay open until a manual reset" — the largest representable duration
        "wait" => b.wait_duration_in_open(if v == "max" { Duration::MAX } else { ticks(num(v)) }),
        "perm" => b.permitted_calls_in_half_open(num(v) as usize),
        "wtype" => b.sliding_window_type(if v == "time" { SlidingWindowType::TimeBased } else { SlidingWindowType::CountBased }),
        // `wdur:max`: "never forget a call" — a window that cannot be subtracted from the monotonic clock
        "wdur" => b.sliding_window_duration(if v == "max" { Duration::MAX } else { ticks(num(v)) }),
        "min" => b.minimum_number_of_calls(num(v) as usize),
        "slow" => b.slow_call_duration_threshold(ticks(num(v))),
        "sr" => b.slow_call_rate_threshold(frac_of(v, (1, 1))),
        "name" => b.name(v),
        "lis" => match v {
            "tr" => b.on_state_transition(|from, to| log(format!("transition {} {}", st(from), st(to)))),
            "trs" => b.on_state_transition(|from, to| log(format!("transition {} {} sync={}", st(from), st(to), peek_sync()))),
            "slow" => b.on_slow_call(|d| log_raw(format!("#slow {}", d.as_nanos() as u64 / tick_ns().max(1)))),
            "permitted" => b.on_call_permitted(|_| {}),
            "rejected" => b.on_call_rejected(|| {}),
            "success" => b.on_success(|_| {}),
            "failure" => b.on_failure(|_| {}),
            _ => b,
        },
        _ => b,
    }
}

/// the classic header keys as the chain the adapter has always applied (the classifier last)
fn classic_chain(kv: &Kv, all: bool) -> Vec<String> {
    let mut v = Vec::new();
    let mut put = |k: &str, item: &str, d: Option<&str>| {
        if let Some(x) = kv.get(k).or(if all { d } else { None }) {
            v.push(format!("{}:{}", item, x));
        }
    };
    put("fr", "fr", Some("1/2"));
    put("size", "size", Some("10"));
    put("wait", "wait", Some("1000"));
    put("permitted", "perm", Some("1"));
    drop(put);
    match kv.u64("listen", 1) {
        0 => {}
        2 => v.push("lis:trs".into()),
        _ => v.push("lis:tr".into()),
    }
    if kv.str("wtype", "count") == "time" {
        v.push("wtype:time".into());
        v.push(format!("wdur:{}", kv.str("wdur", "1000")));
    }
    if let Some(m) = kv.opt_u64("min") {
        v.push(format!("min:{}", m));
    }
    if let Some(n) = kv.opt_u64("slow") {
        v.push(format!("slow:{}", n));
        v.push(format!("sr:{}", kv.str("sr", "1/1")));
    }
    let cls = kv.u64("cls", 0);
    if cls != 0 {
        v.push(format!("cls:{}", cls));
    }
    v
}

fn start(kv: &Kv) -> Bld<DefaultClassifier> {
    match kv.str("preset", "builder").as_str() {
        "fn" => circuit_breaker_builder(),
        "standard" => CircuitBreakerLayer::standard(),
        "fast_fail" => CircuitBreakerLayer::fast_fail(),
        "tolerant" => CircuitBreakerLayer::tolerant(),
        _ => CircuitBreakerLayer::builder(),
    }
}

/// how a service is made from a layer whose classifier type is `Clone` (`layer_fn`, `for_request` and `Clone` of the layer
/// all need that): by `via=`; odd k: from a clone of the layer taken now, i.e. after other services were built from the original
fn maker<C, S>(layer: CircuitBreakerLayer<C>, via: String) -> impl Fn(u64, S) -> CircuitBreaker<S, C>
where
    C: Clone,
    CircuitBreakerLayer<C>: Layer<S, Service = CircuitBreaker<S, C>>,
{
    move |k: u64, inner: S| {
        let cloned;
        let lay = if k % 2 == 1 {
            cloned = layer.clone();
            &cloned
        } else {
            &layer
        };
        #[allow(deprecated)]
        let plain = match via.as_str() {
            "layer" => Layer::layer(lay, inner),
            "for_request" => lay.for_request::<Req>().layer(inner),
            _ => lay.layer_fn(inner),
        };
        plain
    }
}

/// everything after the layer value exists: services are made from it on demand
fn finish<C, S, Rsp, E>(
    mk: impl Fn(u64, S) -> CircuitBreaker<S, C> + 'static,
    kv: &Kv,
    wrap: fn(Gate) -> S,
    fbwrap: fn(Result<Resp, IErr>) -> Result<Rsp, E>,
    render: fn(Result<Rsp, CircuitBreakerError<E>>) -> String,
) -> Adapter
where
    S: Service<Req, Response = Rsp, Error = E> + Clone + Send + Sync + 'static,
    S::Future: Send + 'static,
    C: FailureClassifierTrait<Rsp, E> + Send + Sync + 'static,
    Rsp: Send + Sync + 'static,
    E: Send + Sync + 'static,
{
    let fallback = kv.u64("fallback", 0) == 1;
    let early = kv.u64("early", 0);
    let make: Rc<dyn Fn(u64) -> One> = Rc::new(move |k: u64| -> One {
        let gate = GateCtl::default();
        let inner = wrap(Gate { inner: Inner::new(), ctl: gate.clone() });
        one(k, mk(k, inner), gate, fallback, early, fbwrap, render)
    });
    let svcs: Services = Rc::new(RefCell::new(BTreeMap::new()));
    svcs.borrow_mut().insert(0, make(0));
    Adapter { svcs, make, hdr: kv.clone() }
}

fn chain_items(kv: &Kv) -> Vec<String> {
    match kv.get("chain") {
        Some(ch) => ch.split(',').filter(|x| !x.is_empty() && *x != "-").map(|x| x.to_string()).collect(),
        None => classic_chain(kv, kv.get("preset").is_none()),
    }
}

enum Fam {
    D(Bld<DefaultClassifier>),
    F(Bld<FnClassifier<ClsFn>>),
}

impl Adapter {
    pub fn new(kv: &Kv) -> Adapter {
        FB.lock().unwrap_or_else(|e| e.into_inner()).clear();
        PEEK.lock().unwrap_or_else(|e| e.into_inner()).clear();
        enter_svc(0);
        let items = chain_items(kv);
        if let Some(ix) = items.iter().position(|x| x.starts_with("clsr:")) {
            // errors encoded in the response: `classify_response` fixes the service's error type to `Infallible`
            let mut b = start(kv);
            for it in &items[..ix] {
                b = plain_setter(b, it);
            }
            let cls = classifier(num(&items[ix][5..]));
            let mut b = b.classify_response(move |r: &Result<Resp, IErr>| cls(r));
            for it in &items[ix + 1..] {
                b = plain_setter(b, it);
            }
            // the classifier type `classify_response` produces is opaque and not `Clone`: the layer can be neither cloned nor
            // used through `layer_fn` / `for_request`; `Layer::layer` is the one way to make a service from it
            let layer = b.build();
            return finish(move |_k: u64, inner: Infal| Layer::layer(&layer, inner), kv, Infal, Ok, render_r);
        }
        let mut fam = Fam::D(start(kv));
        for it in &items {
            fam = match (fam, it.strip_prefix("cls:")) {
                (Fam::D(b), Some(k)) => Fam::F(b.failure_classifier(classifier(num(k)))),
                (Fam::F(b), Some(k)) => Fam::F(b.failure_classifier(classifier(num(k)))),
                (Fam::D(b), None) => Fam::D(plain_setter(b, it)),
                (Fam::F(b), None) => Fam::F(plain_setter(b, it)),
            };
        }
        fn same(g: Gate) -> Gate {
            g
        }
        fn keep(r: Result<Resp, IErr>) -> Result<Resp, IErr> {
            r
        }
        match fam {
            Fam::D(b) => finish(maker(b.build(), kv.str("via", "layer_fn")), kv, same, keep, render),
            Fam::F(b) => finish(maker(b.build(), kv.str("via", "layer_fn")), kv, same, keep, render),
        }
    }

    fn with<R>(&self, k: u64, f: impl FnOnce(&mut One) -> R) -> R {
        enter_svc(k);
        let fresh = if self.svcs.borrow().contains_key(&k) { None } else { Some((self.make)(k)) };
        let mut m = self.svcs.borrow_mut();
        if let Some(o) = fresh {
            m.insert(k, o);
        }
        f(m.get_mut(&k).expect("service"))
    }
}

fn request(svcs: &Services, make: &Rc<dyn Fn(u64) -> One>, c: usize, kv: &Kv) -> Option<CallFut> {
    if let Some(step) = kv.get("fb").and_then(|s| parse_plan(s).pop_front()) {
        FB.lock().unwrap_or_else(|e| e.into_inner()).insert(c, step);
    }
    let k = kv.u64("svc", 0);
    let fresh = if svcs.borrow().contains_key(&k) { None } else { Some(make(k)) };
    let mut m = svcs.borrow_mut();
    if let Some(o) = fresh {
        m.insert(k, o);
    }
    let one = m.get_mut(&k).expect("service");
    enter_svc(k);
    (one.call)(Req::new(c, kv), kv.opt_u64("h")).map(|fut| Box::pin(InSvc { k, fut }) as CallFut)
}

impl Drop for Adapter {
    fn drop(&mut self) {
        // the viewers hold clones of the services
        PEEK.lock().unwrap_or_else(|e| e.into_inner()).clear();
    }
}

fn suffix(kv: &Kv) -> String {
    match kv.u64("svc", 0) {
        0 => String::new(),
        k => format!(" svc={}", k),
    }
}

impl Mw for Adapter {
    fn arrive(&mut self, c: usize, kv: &Kv) -> Option<CallFut> {
        request(&self.svcs, &self.make, c, kv)
    }
    /// `manual ondrop c=<c> by=<c2> <arrive words>`: c2 arrives — `poll_ready`, `call` on a clone (or persistent handle) of
    /// the breaker, exactly as `arrive` does — from inside the destructor of the unfinished inner call of c, i.e. while a
    /// cancelled call (a trial of a half-open episode, or an ordinary call) is still being torn down inside the wrapped service.
    fn requester(&self) -> Option<Requester> {
        let (svcs, make) = (self.svcs.clone(), self.make.clone());
        Some(Rc::new(move |c: usize, kv: &Kv| request(&svcs, &make, c, kv)))
    }
    fn probe(&mut self, _what: &str, kv: &Kv) {
        let s = self.with(kv.u64("svc", 0), |o| (o.ctl)("views"));
        log(format!("probe {}{}", s, suffix(kv)));
    }
    fn manual(&mut self, what: &str, kv: &Kv) {
        if what == "contend" {
            contend(&self.hdr, kv);
            return;
        }
        log(format!("manual {}{}", what, suffix(kv)));
        let blocked = self.with(kv.u64("svc", 0), |o| match what {
            "inner_up" => {
                o.gate.set(0);
                false
            }
            "inner_down" => {
                o.gate.set(1);
                false
            }
            "inner_fail" => {
                o.gate.set(2);
                false
            }
            "yield" => {
                o.tasks.run();
                false
            }
            _ => (o.ctl)(what) == BLOCKED,
        });
        if blocked {
            log(format!("manual_blocked {}", what));
        }
    }
}
