//! C03 / C04 / C09: the real `CircuitBreakerLayer` (with and without fallback) over the scripted inner service.
use crate::world::*;
use futures::future::BoxFuture;
use futures::FutureExt;
use std::time::Duration;
use tower::Service;
use tower_resilience_circuitbreaker::{
    CircuitBreakerError, CircuitBreakerLayer, CircuitMetrics, CircuitState, SlidingWindowType,
};

pub struct Adapter {
    call: Box<dyn FnMut(Req) -> Option<CallFut>>,
    ctl: Box<dyn Fn(&str) -> String>,
}

fn frac(kv: &Kv, k: &str, d: (u64, u64)) -> f64 {
    let s = kv.str(k, &format!("{}/{}", d.0, d.1));
    let (a, b) = s.split_once('/').unwrap_or(("1", "2"));
    a.parse::<f64>().unwrap_or(1.0) / b.parse::<f64>().unwrap_or(2.0)
}

fn st(s: CircuitState) -> &'static str {
    match s {
        CircuitState::Closed => "closed",
        CircuitState::Open => "open",
        CircuitState::HalfOpen => "halfopen",
    }
}

pub fn render(r: Result<Resp, CircuitBreakerError<IErr>>) -> String {
    match r {
        Ok(x) if x.v >= 900_000 => format!("ok:fallback:{}", x.v - 900_000),
        Ok(x) => format!("ok:{}", x.v),
        Err(CircuitBreakerError::Inner(e)) => format!("err:inner{}:{}", e.kind, e.v),
        Err(CircuitBreakerError::OpenCircuit) => "err:open".into(),
    }
}

fn views(state: CircuitState, sync: CircuitState, is_open: bool, m: CircuitMetrics) -> String {
    format!(
        "views state={} sync={} is_open={} mstate={} total={} fail={} succ={} slow={}",
        st(state), st(sync), is_open as u8, st(m.state), m.total_calls, m.failure_count, m.success_count, m.slow_call_count
    )
}

macro_rules! controls {
    ($svc:expr) => {{
        let svc = $svc.clone();
        Box::new(move |what: &str| -> String {
            match what {
                "force_open" => {
                    svc.force_open().now_or_never().expect("lock");
                    String::new()
                }
                "force_closed" => {
                    svc.force_closed().now_or_never().expect("lock");
                    String::new()
                }
                "reset" => {
                    svc.reset().now_or_never().expect("lock");
                    String::new()
                }
                _ => views(
                    svc.state().now_or_never().expect("lock"),
                    svc.state_sync(),
                    svc.is_open(),
                    svc.metrics().now_or_never().expect("lock"),
                ),
            }
        }) as Box<dyn Fn(&str) -> String>
    }};
}

macro_rules! caller {
    ($svc:expr) => {{
        let svc = $svc.clone();
        Box::new(move |req: Req| -> Option<CallFut> {
            let mut s = svc.clone();
            let c = req.c;
            match poll_ready_once(&mut s) {
                std::task::Poll::Ready(Ok(())) => {}
                _ => {
                    log(format!("result {} notready", c));
                    return None;
                }
            }
            let fut = s.call(req);
            Some(held(fut, render))
        }) as Box<dyn FnMut(Req) -> Option<CallFut>>
    }};
}

impl Adapter {
    pub fn new(kv: &Kv) -> Adapter {
        let cls = kv.u64("cls", 0);
        let mut b = CircuitBreakerLayer::builder()
            .failure_rate_threshold(frac(kv, "fr", (1, 2)))
            .sliding_window_size(kv.u64("size", 10) as usize)
            // `wait=max`: "stay open until a manual reset" — the largest representable duration
            .wait_duration_in_open(if kv.str("wait", "") == "max" { Duration::MAX } else { Duration::from_millis(kv.u64("wait", 1000)) })
            .permitted_calls_in_half_open(kv.u64("permitted", 1) as usize)
            .on_state_transition(|from, to| log(format!("transition {} {}", st(from), st(to))));
        if kv.str("wtype", "count") == "time" {
            b = b
                .sliding_window_type(SlidingWindowType::TimeBased)
                .sliding_window_duration(Duration::from_millis(kv.u64("wdur", 1000)));
        }
        if let Some(m) = kv.opt_u64("min") {
            b = b.minimum_number_of_calls(m as usize);
        }
        if let Some(ms) = kv.opt_u64("slow") {
            b = b
                .slow_call_duration_threshold(Duration::from_millis(ms))
                .slow_call_rate_threshold(frac(kv, "sr", (1, 1)));
        }
        let fallback = kv.u64("fallback", 0) == 1;
        let fb = |req: Req| -> BoxFuture<'static, Result<Resp, IErr>> {
            Box::pin(async move { Ok(Resp { v: 900_000 + req.c as u64, c: req.c, tag: req.tag }) })
        };
        if cls == 0 {
            let svc = b.build().layer_fn(Inner::new());
            if fallback {
                let svc = svc.with_fallback(fb);
                Adapter { call: caller!(svc), ctl: controls!(svc) }
            } else {
                Adapter { call: caller!(svc), ctl: controls!(svc) }
            }
        } else {
            // custom classifiers: 1 = only error kind 1 is a failure; 2 = errors and responses to odd tags are failures
            let b = b.failure_classifier(move |r: &Result<Resp, IErr>| match (cls, r) {
                (1, Err(e)) => e.kind == 1,
                (1, Ok(_)) => false,
                (_, Err(_)) => true,
                (_, Ok(x)) => x.tag % 2 == 1,
            });
            let svc = b.build().layer_fn(Inner::new());
            if fallback {
                let svc = svc.with_fallback(fb);
                Adapter { call: caller!(svc), ctl: controls!(svc) }
            } else {
                Adapter { call: caller!(svc), ctl: controls!(svc) }
            }
        }
    }
}

impl Mw for Adapter {
    fn arrive(&mut self, c: usize, kv: &Kv) -> Option<CallFut> {
        (self.call)(Req::new(c, kv))
    }
    fn probe(&mut self, what: &str, _kv: &Kv) {
        let s = (self.ctl)(what);
        log(format!("probe {}", s));
    }
    fn manual(&mut self, what: &str, _kv: &Kv) {
        log(format!("manual {}", what));
        (self.ctl)(what);
    }
}
