//! C05: the real `RetryLayer` over the scripted inner service.
//!
//! header: `retry [max=N] [dyn=1] [retry=<bitmask of retryable error kinds>]
//!                [bo=fixed:<d> | exp:<d> | fn:<d>,<d>,…] [unit=us]
//!                [budget=bucket:<max>:<initial> | aimd:<min>:<max>:<deposit>:<withdraw>:<q>]`
//!   * `max` absent      → the builder's default (3); `dyn=1` → `max_attempts_fn(|req| req.key)`,
//!     the request carries `ma=<n>` (default: `max`, or 3)
//!   * `retry` absent    → no predicate (every error is retried); otherwise kind k is retried
//!     iff bit k of the mask is set
//!   * `bo` absent       → the builder's default (exponential, 100 ms); `fn:` is a custom
//!     `IntervalFunction` (table look-up, 0 beyond the table)
//!   * `unit=us`         → the back-off values `<d>` are microseconds (default: milliseconds); a value `max` is
//!     `Duration::MAX` in either unit (tokio: an unrepresentable deadline = far future). The op clock stays in ms.
//!   * `aimd … q`        → decrease factor q/4 (dyadic, so `limit as f64 * factor` is exact)
use crate::world::*;
use std::sync::Arc;
use std::time::Duration;
use tower::{Layer, Service};
use tower_resilience_retry::{AimdBudget, FnInterval, Retry, RetryBudget, RetryBudgetBuilder, RetryLayer};

pub struct Adapter {
    svc: Retry<Inner, Req, IErr>,
    budget: Option<Arc<dyn RetryBudget>>,
    aimd: Option<Arc<AimdBudget>>,
    dflt_max: u64,
}

fn nums(s: &str, sep: char) -> Vec<u64> {
    s.split(sep).filter(|x| !x.is_empty()).map(|x| x.parse().unwrap_or(0)).collect()
}

/// one configured back-off value: a number of ms (µs with `unit=us`), or `max` = `Duration::MAX`
fn dur(s: &str, us: bool) -> Duration {
    if s == "max" {
        return Duration::MAX;
    }
    let n: u64 = s.parse().unwrap_or(0);
    if us {
        Duration::from_micros(n)
    } else {
        Duration::from_millis(n)
    }
}

impl Adapter {
    pub fn new(kv: &Kv) -> Adapter {
        let mut b = RetryLayer::<Req, IErr>::builder();
        let dflt_max = kv.u64("max", 3);
        if kv.u64("dyn", 0) == 1 {
            b = b.max_attempts_fn(|req: &Req| req.key as usize);
        } else if let Some(m) = kv.opt_u64("max") {
            b = b.max_attempts(m as usize);
        }
        if let Some(mask) = kv.opt_u64("retry") {
            b = b.retry_on(move |e: &IErr| e.kind < 64 && (mask >> e.kind) & 1 == 1);
        }
        if let Some(bo) = kv.get("bo") {
            let (kind, arg) = bo.split_once(':').unwrap_or((bo, "0"));
            let us = kv.get("unit") == Some("us");
            match kind {
                "fixed" => b = b.fixed_backoff(dur(arg, us)),
                "exp" => b = b.exponential_backoff(dur(arg, us)),
                _ => {
                    let table: Vec<Duration> = arg.split(',').filter(|x| !x.is_empty()).map(|x| dur(x, us)).collect();
                    b = b.backoff(FnInterval::new(move |attempt: usize| {
                        table.get(attempt).cloned().unwrap_or(Duration::ZERO)
                    }));
                }
            }
        }
        let mut budget: Option<Arc<dyn RetryBudget>> = None;
        let mut aimd = None;
        if let Some(bu) = kv.get("budget") {
            let (kind, arg) = bu.split_once(':').unwrap_or((bu, ""));
            let p = nums(arg, ':');
            let g = |i: usize, d: u64| p.get(i).cloned().unwrap_or(d);
            if kind == "bucket" {
                budget = Some(
                    RetryBudgetBuilder::new()
                        .token_bucket()
                        .max_tokens(g(0, 1) as usize)
                        .initial_tokens(g(1, g(0, 1)) as usize)
                        .build(),
                );
            } else if kind == "aimd" {
                let a = Arc::new(AimdBudget::new(
                    g(0, 1) as usize,
                    g(1, 1) as usize,
                    g(2, 1) as usize,
                    g(3, 1) as usize,
                    g(4, 2) as f64 / 4.0,
                ));
                aimd = Some(a.clone());
                budget = Some(a);
            }
        }
        if let Some(bu) = budget.clone() {
            b = b.budget(bu);
        }
        let layer = b.build();
        Adapter { svc: layer.layer(Inner::new()), budget, aimd, dflt_max }
    }
}

pub fn render(r: Result<Resp, IErr>) -> String {
    match r {
        Ok(x) => format!("ok:{}", x.v),
        Err(e) => format!("err:inner{}:{}", e.kind, e.v),
    }
}

impl Mw for Adapter {
    fn arrive(&mut self, c: usize, kv: &Kv) -> Option<CallFut> {
        let mut svc = self.svc.clone();
        let mut req = Req::new(c, kv);
        req.key = kv.u64("ma", self.dflt_max); // per-request max_attempts travels in the request
        match poll_ready_once(&mut svc) {
            std::task::Poll::Ready(Ok(())) => {}
            _ => {
                log(format!("result {} notready", c));
                return None;
            }
        }
        let fut = svc.call(req);
        Some(held(fut, render))
    }

    fn probe(&mut self, what: &str, _kv: &Kv) {
        match (what, &self.budget, &self.aimd) {
            ("balance", Some(b), _) => log(format!("probe balance={}", b.balance())),
            ("limit", _, Some(a)) => log(format!("probe limit={}", a.current_max())),
            _ => log("noop".into()),
        }
    }

    /// the budget is a shared `Arc`: other users may deposit / withdraw between the steps of the requests
    fn manual(&mut self, what: &str, _kv: &Kv) {
        match (what, &self.budget) {
            ("deposit", Some(b)) => {
                b.deposit();
                log("probe deposited".into());
            }
            ("withdraw", Some(b)) => log(format!("probe withdraw={}", b.try_withdraw() as u8)),
            _ => log("noop".into()),
        }
    }
}
