//! C05: the real `RetryLayer` over the scripted inner service.
//!
//! header: `retry [max=N] [dyn=1] [retry=<bitmask of retryable error kinds>]
//!                [bo=fixed:<d> | exp:<d> | fn:<d>,<d>,…] [unit=us]
//!                [budget=bucket:<max>:<initial> | aimd:<min>:<max>:<deposit>:<withdraw>:<q>]`
//!   * `max` absent      → the builder's default (3); `dyn=1` → `max_attempts_fn(|req| req.key)`,
//!     the request carries `ma=<n>` (default: `max`, or 3)
//!   * `retry` absent    → no predicate (every error is retried); otherwise kind k is retried
//!     iff bit k of the mask is set
//!   * `bo` absent       → the builder's default (exponential, 100 ms); `fn:` is a custom
//!     `IntervalFunction` (table look-up, 0 beyond the table)
//!   * `unit=us`         → the back-off values `<d>` are microseconds (default: milliseconds); a value `max` is
//!     `Duration::MAX` in either unit (tokio: an unrepresentable deadline = far future). The op clock stays in ms.
//!   * `aimd … q`        → decrease factor q/4 (dyadic, so `limit as f64 * factor` is exact)
//!
//! or: `retry chain=<s1,s2,…> [unit=us]` — the builder chain itself (replaces max/dyn/retry/bo/budget), applied left
//! to right to `RetryLayer::builder()` through the public setters, so that the ORDER of the setters (and repeated
//! setters) is a dimension of its own:
//!   `m<n>` = `.max_attempts(n)`; `f<n>` = `.max_attempts_fn(f)` with f(req) = the request's `ma=`, else `<n>`;
//!   `bf<d>` = `.fixed_backoff(d)`, `be<d>` = `.exponential_backoff(d)`, `bt<d>/<d>/…` = `.backoff(table)`;
//!   `p<mask>` = `.retry_on(mask)`; `ubucket:…` / `uaimd:…` = `.budget(a new budget)`; anything else is skipped;
//!   `chain=-` = no setter at all (the builder's defaults). Probes and manual deposits go to the budget given LAST.
use crate::world::*;
use std::sync::Arc;
use std::time::Duration;
use tower::{Layer, Service};
use tower_resilience_retry::{AimdBudget, FnInterval, Retry, RetryBudget, RetryBudgetBuilder, RetryLayer};

pub struct Adapter {
    svc: Retry<Inner, Req, IErr>,
    budget: Option<Arc<dyn RetryBudget>>,
    aimd: Option<Arc<AimdBudget>>,
    dflt_max: u64,
}

fn nums(s: &str, sep: char) -> Vec<u64> {
    s.split(sep).filter(|x| !x.is_empty()).map(|x| x.parse().unwrap_or(0)).collect()
}

/// one configured back-off value: a number of ms (µs with `unit=us`), or `max` = `Duration::MAX`
fn dur(s: &str, us: bool) -> Duration {
    if s == "max" {
        return Duration::MAX;
    }
    let n: u64 = s.parse().unwrap_or(0);
    if us {
        Duration::from_micros(n)
    } else {
        Duration::from_millis(n)
    }
}

type Budgets = (Option<Arc<dyn RetryBudget>>, Option<Arc<AimdBudget>>);

/// `bucket:<max>:<initial>` / `aimd:<min>:<max>:<deposit>:<withdraw>:<q>`; anything else: no budget
fn mk_budget(bu: &str) -> Budgets {
    let (kind, arg) = bu.split_once(':').unwrap_or((bu, ""));
    let p = nums(arg, ':');
    let g = |i: usize, d: u64| p.get(i).cloned().unwrap_or(d);
    if kind == "bucket" {
        let b = RetryBudgetBuilder::new()
            .token_bucket()
            .max_tokens(g(0, 1) as usize)
            .initial_tokens(g(1, g(0, 1)) as usize)
            .build();
        (Some(b), None)
    } else if kind == "aimd" {
        let a = Arc::new(AimdBudget::new(
            g(0, 1) as usize,
            g(1, 1) as usize,
            g(2, 1) as usize,
            g(3, 1) as usize,
            g(4, 2) as f64 / 4.0,
        ));
        (Some(a.clone()), Some(a))
    } else {
        (None, None)
    }
}

type B = tower_resilience_retry::RetryConfigBuilder<Req, IErr>;

/// one of the three back-off setters: `fixed` / `exp` / anything else = a custom table (`sep` between its values)
fn set_backoff(b: B, kind: &str, arg: &str, sep: char, us: bool) -> B {
    match kind {
        "fixed" => b.fixed_backoff(dur(arg, us)),
        "exp" => b.exponential_backoff(dur(arg, us)),
        _ => {
            let table: Vec<Duration> = arg.split(sep).filter(|x| !x.is_empty()).map(|x| dur(x, us)).collect();
            b.backoff(FnInterval::new(move |attempt: usize| table.get(attempt).cloned().unwrap_or(Duration::ZERO)))
        }
    }
}

/// a request without `ma=` (chain mode): the extractor in force answers its own default
const NO_MA: u64 = u64::MAX;

fn all_digits(s: &str) -> Option<u64> {
    if !s.is_empty() && s.bytes().all(|x| x.is_ascii_digit()) {
        s.parse().ok()
    } else {
        None
    }
}

/// `chain=<s1,s2,…>`: the setters applied left to right to `RetryLayer::builder()` through the public API.
/// The budget handle kept for probes / manual operations is the one handed to the LAST `budget(..)` call.
fn build_chain(chain: &str, us: bool) -> (B, Budgets) {
    let mut b = RetryLayer::<Req, IErr>::builder();
    let mut budgets: Budgets = (None, None);
    for item in chain.split(',') {
        if !item.is_ascii() || item.is_empty() {
            continue;
        }
        let (h1, a1) = item.split_at(1);
        let (h2, a2) = item.split_at(item.len().min(2));
        match (h1, all_digits(a1), h2) {
            ("m", Some(n), _) => b = b.max_attempts(n as usize),
            ("f", Some(n), _) => {
                b = b.max_attempts_fn(move |req: &Req| if req.key == NO_MA { n as usize } else { req.key as usize })
            }
            ("p", Some(mask), _) => b = b.retry_on(move |e: &IErr| e.kind < 64 && (mask >> e.kind) & 1 == 1),
            (_, _, "bf") => b = set_backoff(b, "fixed", a2, '/', us),
            (_, _, "be") => b = set_backoff(b, "exp", a2, '/', us),
            (_, _, "bt") => b = set_backoff(b, "fn", a2, '/', us),
            ("u", _, _) => {
                let made = mk_budget(a1);
                if let Some(bu) = made.0.clone() {
                    b = b.budget(bu);
                    budgets = made;
                }
            }
            _ => {}
        }
    }
    (b, budgets)
}

impl Adapter {
    pub fn new(kv: &Kv) -> Adapter {
        let us = kv.get("unit") == Some("us");
        if let Some(chain) = kv.get("chain") {
            let (b, (budget, aimd)) = build_chain(chain, us);
            let layer = b.build();
            return Adapter { svc: layer.layer(Inner::new()), budget, aimd, dflt_max: NO_MA };
        }
        let mut b = RetryLayer::<Req, IErr>::builder();
        let dflt_max = kv.u64("max", 3);
        if kv.u64("dyn", 0) == 1 {
            b = b.max_attempts_fn(|req: &Req| req.key as usize);
        } else if let Some(m) = kv.opt_u64("max") {
            b = b.max_attempts(m as usize);
        }
        if let Some(mask) = kv.opt_u64("retry") {
            b = b.retry_on(move |e: &IErr| e.kind < 64 && (mask >> e.kind) & 1 == 1);
        }
        if let Some(bo) = kv.get("bo") {
            let (kind, arg) = bo.split_once(':').unwrap_or((bo, "0"));
            b = set_backoff(b, kind, arg, ',', us);
        }
        let (budget, aimd) = kv.get("budget").map(mk_budget).unwrap_or((None, None));
        if let Some(bu) = budget.clone() {
            b = b.budget(bu);
        }
        let layer = b.build();
        Adapter { svc: layer.layer(Inner::new()), budget, aimd, dflt_max }
    }
}

pub fn render(r: Result<Resp, IErr>) -> String {
    match r {
        Ok(x) => format!("ok:{}", x.v),
        Err(e) => format!("err:inner{}:{}", e.kind, e.v),
    }
}

impl Mw for Adapter {
    fn arrive(&mut self, c: usize, kv: &Kv) -> Option<CallFut> {
        let mut svc = self.svc.clone();
        let mut req = Req::new(c, kv);
        req.key = kv.u64("ma", self.dflt_max); // per-request max_attempts travels in the request
        match poll_ready_once(&mut svc) {
            std::task::Poll::Ready(Ok(())) => {}
            _ => {
                log(format!("result {} notready", c));
                return None;
            }
        }
        let fut = svc.call(req);
        Some(held(fut, render))
    }

    fn probe(&mut self, what: &str, _kv: &Kv) {
        match (what, &self.budget, &self.aimd) {
            ("balance", Some(b), _) => log(format!("probe balance={}", b.balance())),
            ("limit", _, Some(a)) => log(format!("probe limit={}", a.current_max())),
            _ => log("noop".into()),
        }
    }

    /// the budget is a shared `Arc`: other users may deposit / withdraw between the steps of the requests
    fn manual(&mut self, what: &str, _kv: &Kv) {
        match (what, &self.budget) {
            ("deposit", Some(b)) => {
                b.deposit();
                log("probe deposited".into());
            }
            ("withdraw", Some(b)) => log(format!("probe withdraw={}", b.try_withdraw() as u8)),
            _ => log("noop".into()),
        }
    }
}
