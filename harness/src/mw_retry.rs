//! C05: the real `RetryLayer` over the scripted inner service.
//!
//! header: `retry [max=N] [dyn=1] [retry=<bitmask of retryable error kinds>]
//!                [bo=fixed:<d> | exp:<d> | fn:<d>,<d>,…] [unit=us]
//!                [budget=bucket:<max>:<initial> | aimd:<min>:<max>:<deposit>:<withdraw>:<q>]`
//!   * `max` absent      → the builder's default (3); `dyn=1` → `max_attempts_fn(|req| req.key)`,
//!     the request carries `ma=<n>` (default: `max`, or 3)
//!   * `retry` absent    → no predicate (every error is retried); otherwise kind k is retried
//!     iff bit k of the mask is set
//!   * `bo` absent       → the builder's default (exponential, 100 ms); `fn:` is a custom
//!     `IntervalFunction` (table look-up, 0 beyond the table)
//!   * `unit=us`         → the back-off values `<d>` are microseconds (default: milliseconds); a value `max` is
//!     `Duration::MAX` in either unit (tokio: an unrepresentable deadline = far future). The op clock stays in ms.
//!   * `aimd … q`        → decrease factor q/4 (dyadic, so `limit as f64 * factor` is exact)
//!
//! or: `retry chain=<s1,s2,…> [unit=us]` — the builder chain itself (replaces max/dyn/retry/bo/budget), applied left
//! to right to `RetryLayer::builder()` through the public setters, so that the ORDER of the setters (and repeated
//! setters) is a dimension of its own:
//!   `m<n>` = `.max_attempts(n)`; `f<n>` = `.max_attempts_fn(f)` with f(req) = the request's `ma=`, else `<n>`;
//!   `bf<d>` = `.fixed_backoff(d)`, `be<d>` = `.exponential_backoff(d)`, `bt<d>/<d>/…` = `.backoff(table)`;
//!   `p<mask>` = `.retry_on(mask)`; `ubucket:…` / `uaimd:…` = `.budget(a new budget)`; anything else is skipped;
//!   `chain=-` = no setter at all (the builder's defaults). Probes and manual deposits go to the budget given LAST.
//!   `n<name>` = `.name(name)`; with `via=exponential_backoff|aggressive|conservative` the chain starts from that preset
//!   of `RetryLayer` instead of `builder()`.
//!
//! Interval-function objects handed to `.backoff(..)` (`bo=` kinds / chain items), every public constructor:
//!   `ifixed:<d>` / `bi<d>`                          `FixedInterval::new(d)`
//!   `iexp:<d>_<p>_<q>_<cap>` / `bx…`                `ExponentialBackoff::new(d).multiplier(p/q).max_interval(cap)`
//!   `rand:<d>_<pct>_<p>_<q>_<cap>` / `br…`          `ExponentialRandomBackoff::new(d, pct/100).multiplier(p/q).max_interval(cap)`
//!   (`fn:` / `bt` is `FnInterval::new`); a field `-` or absent = that setter is not called. These objects are wrapped
//!   (`Observed`): every answer of `next_interval(k)` is handed to the model as the observed choice `@d=<ns>` on the poll
//!   in progress (jitter is random, the exponential is float-computed) and logged as the meta line `#bo <k> <ns>`.
//!
//! Budgets: `bucket:<max>:<initial>[:<tokens per second>]` and `aimdb:<min>:<max>:<deposit>:<withdraw>:<q>` are built
//!   through `RetryBudgetBuilder::new().token_bucket()…build()` / `.aimd()…build()` (a field `-` = setter not called: the
//!   builder's default); `aimd:…` is `AimdBudget::new` (the only way to a handle with `current_max()`).
//!
//! `ready=<script>`: the inner service is `Inner::strict(script)`: its answers to the readiness polls the retry loop makes
//!   BETWEEN attempts ('r' ready, 'p' pending + self-wake, 'e' error; exhausted: ready). The caller's own readiness check
//!   at arrival always finds the service ready (an 'r' is put in front of the script for it).
//! `rec=<ms>`: every service instance answers `Pending` (no script answer consumed, a timer armed) until that long after
//!   the call it last served (`Inner::strict_rec`): the request's own instance is still recovering when a short back-off ends.
//!
//! `arrive … svc=<k> lclone=1 h=same|clone`: service k is built lazily by `layer.layer(inner)` from the ONE layer value
//!   (`lclone=1`: from a clone of the layer taken at that moment); default: the call is made on a fresh clone of service
//!   k; `h=same`: on the handle kept for service k (the one used by the previous `h=` arrival: `h.call(); h.call()`);
//!   `h=clone`: on a clone of that handle taken now (after whatever calls it made), which becomes the kept handle.
//!
//! Budget events. The budget handed to `.budget(..)` is wrapped (`Logged`): every `try_withdraw` made from inside the poll
//!   of a call future is a compared log line `budget <c> grant` / `budget <c> refused` (c = the request whose future is
//!   being polled: `Tagged` marks it; a `manual withdraw` by another holder of the handle is not inside a poll and is
//!   logged as before, `probe withdraw=…`). The layer's own view of a refusal — the `BudgetExhausted` event, through
//!   `.on_budget_exhausted` — is the meta line `#budget_exhausted <attempt>` (checked by the monitor `c05-grant-before-retry`
//!   against the `refused` lines; a meta line, so that where a refactor emits its events does not move compared lines).
use crate::world::*;
use std::cell::Cell;
use std::future::Future;
use std::pin::Pin;
use std::sync::Arc;
use std::task::{Context, Poll};
use std::time::Duration;
use tower::{Layer, Service};
use tower_resilience_retry::{
    AimdBudget, ExponentialBackoff, ExponentialRandomBackoff, FixedInterval, FnInterval, IntervalFunction, Retry,
    RetryBudget, RetryBudgetBuilder, RetryLayer,
};

pub struct Adapter {
    layer: RetryLayer<Req, IErr>,
    base: Inner,
    strict: bool,
    /// service k, built lazily from the one layer value
    svcs: std::collections::BTreeMap<u64, Retry<Inner, Req, IErr>>,
    /// the handle kept for service k (`h=same|clone`)
    handles: std::collections::BTreeMap<u64, Retry<Inner, Req, IErr>>,
    budget: Option<Arc<dyn RetryBudget>>,
    aimd: Option<Arc<AimdBudget>>,
    dflt_max: u64,
}

thread_local! {
    /// the request whose call future is being polled right now
    static CUR: Cell<Option<usize>> = const { Cell::new(None) };
}

/// the call future of request `c`: while it is polled, `CUR` names the request
struct Tagged<F> {
    c: usize,
    fut: F,
}
impl<F: Future + Unpin> Future for Tagged<F> {
    type Output = F::Output;
    fn poll(mut self: Pin<&mut Self>, cx: &mut Context<'_>) -> Poll<F::Output> {
        struct Restore(Option<usize>);
        impl Drop for Restore {
            fn drop(&mut self) {
                CUR.with(|c| c.set(self.0));
            }
        }
        let _restore = Restore(CUR.with(|c| c.replace(Some(self.c))));
        Pin::new(&mut self.fut).poll(cx)
    }
}

/// the budget as the layer sees it: every `try_withdraw` made by the loop of a request is a log line
struct Logged(Arc<dyn RetryBudget>);
impl RetryBudget for Logged {
    fn try_withdraw(&self) -> bool {
        let r = self.0.try_withdraw();
        if let Some(c) = CUR.with(|c| c.get()) {
            log(format!("budget {} {}", c, if r { "grant" } else { "refused" }));
        }
        r
    }
    fn deposit(&self) {
        self.0.deposit()
    }
    fn balance(&self) -> usize {
        self.0.balance()
    }
}

/// what is handed to `.budget(..)`
fn logged(b: Arc<dyn RetryBudget>) -> Arc<dyn RetryBudget> {
    Arc::new(Logged(b))
}

/// the layer's own report of a refusal
fn listen(b: B) -> B {
    b.on_budget_exhausted(|attempt| log_raw(format!("#budget_exhausted {}", attempt)))
}

/// an interval-function object whose answers are observed: handed to the model as `@d=<ns>` on the operation in
/// progress, and logged as the meta line `#bo <retry index> <ns>`
struct Observed<I>(I);
impl<I: IntervalFunction> IntervalFunction for Observed<I> {
    fn next_interval(&self, attempt: usize) -> Duration {
        let d = self.0.next_interval(attempt);
        obs("d", d.as_nanos());
        log_raw(format!("#bo {} {}", attempt, d.as_nanos()));
        d
    }
}

fn nums(s: &str, sep: char) -> Vec<u64> {
    s.split(sep).filter(|x| !x.is_empty()).map(|x| x.parse().unwrap_or(0)).collect()
}

/// one configured back-off value: a number of ms (µs with `unit=us`), or `max` = `Duration::MAX`
fn dur(s: &str, us: bool) -> Duration {
    if s == "max" {
        return Duration::MAX;
    }
    let n: u64 = s.parse().unwrap_or(0);
    if us {
        Duration::from_micros(n)
    } else {
        Duration::from_millis(n)
    }
}

type Budgets = (Option<Arc<dyn RetryBudget>>, Option<Arc<AimdBudget>>);

/// `bucket:<max>:<initial>[:<tps>]` / `aimd:<min>:<max>:<deposit>:<withdraw>:<q>` / `aimdb:…` (through the budget
/// builder); anything else: no budget. A field `-` = the builder's setter is not called.
fn mk_budget(bu: &str) -> Budgets {
    let (kind, arg) = bu.split_once(':').unwrap_or((bu, ""));
    let p = nums(arg, ':');
    let g = |i: usize, d: u64| p.get(i).cloned().unwrap_or(d);
    let raw: Vec<&str> = arg.split(':').collect();
    // Some(n): call the setter with n; None: leave the builder's default
    let field = |i: usize, absent: Option<u64>| -> Option<u64> {
        match raw.get(i) {
            Some(&"-") => None,
            Some(x) if !x.is_empty() => Some(x.parse().unwrap_or(0)),
            _ => absent,
        }
    };
    if kind == "bucket" {
        let mut b = RetryBudgetBuilder::new().token_bucket();
        if let Some(t) = field(2, None) {
            b = b.tokens_per_second(t as f64);
        }
        let max = field(0, Some(1));
        if let Some(m) = max {
            b = b.max_tokens(m as usize);
        }
        if let Some(i) = field(1, None) {
            b = b.initial_tokens(i as usize);
        }
        (Some(b.build()), None)
    } else if kind == "aimdb" {
        let mut b = RetryBudgetBuilder::new().aimd();
        if let Some(x) = field(0, None) {
            b = b.min_budget(x as usize);
        }
        if let Some(x) = field(1, None) {
            b = b.max_budget(x as usize);
        }
        if let Some(x) = field(2, None) {
            b = b.deposit_amount(x as usize);
        }
        if let Some(x) = field(3, None) {
            b = b.withdraw_amount(x as usize);
        }
        if let Some(x) = field(4, None) {
            b = b.decrease_factor(x as f64 / 4.0);
        }
        (Some(b.build()), None)
    } else if kind == "aimd" {
        let a = Arc::new(AimdBudget::new(
            g(0, 1) as usize,
            g(1, 1) as usize,
            g(2, 1) as usize,
            g(3, 1) as usize,
            g(4, 2) as f64 / 4.0,
        ));
        (Some(a.clone()), Some(a))
    } else {
        (None, None)
    }
}

type B = tower_resilience_retry::RetryConfigBuilder<Req, IErr>;

/// a field of `<d>_<pct>_<p>_<q>_<cap>`: `-` / empty / absent = the setter is not called
fn fld<'a>(fs: &[&'a str], i: usize) -> Option<&'a str> {
    match fs.get(i) {
        Some(&"-") | Some(&"") | None => None,
        Some(x) => Some(x),
    }
}

/// one of the back-off setters: `fixed` / `exp` (the builder's shortcuts), `ifixed` / `iexp` / `rand` (an interval-function
/// object built through its own constructor and setters, observed), anything else = a custom table (`FnInterval`; `sep`
/// between its values)
fn set_backoff(b: B, kind: &str, arg: &str, sep: char, us: bool) -> B {
    match kind {
        "fixed" => b.fixed_backoff(dur(arg, us)),
        "exp" => b.exponential_backoff(dur(arg, us)),
        "ifixed" => b.backoff(Observed(FixedInterval::new(dur(arg, us)))),
        "iexp" | "rand" => {
            let fs: Vec<&str> = arg.split('_').collect();
            let o = if kind == "rand" { 1 } else { 0 };
            let d = dur(fs.first().cloned().unwrap_or("0"), us);
            let mult = fld(&fs, 1 + o).map(|p| {
                p.parse::<u64>().unwrap_or(0) as f64 / fld(&fs, 2 + o).and_then(|q| q.parse::<u64>().ok()).unwrap_or(1) as f64
            });
            let cap = fld(&fs, 3 + o).map(|c| dur(c, us));
            if kind == "rand" {
                let pct = fld(&fs, 1).and_then(|x| x.parse::<u64>().ok()).unwrap_or(50);
                let mut i = ExponentialRandomBackoff::new(d, pct as f64 / 100.0);
                if let Some(m) = mult {
                    i = i.multiplier(m);
                }
                if let Some(c) = cap {
                    i = i.max_interval(c);
                }
                b.backoff(Observed(i))
            } else {
                let mut i = ExponentialBackoff::new(d);
                if let Some(m) = mult {
                    i = i.multiplier(m);
                }
                if let Some(c) = cap {
                    i = i.max_interval(c);
                }
                b.backoff(Observed(i))
            }
        }
        _ => {
            let table: Vec<Duration> = arg.split(sep).filter(|x| !x.is_empty()).map(|x| dur(x, us)).collect();
            b.backoff(FnInterval::new(move |attempt: usize| table.get(attempt).cloned().unwrap_or(Duration::ZERO)))
        }
    }
}

/// a request without `ma=` (chain mode): the extractor in force answers its own default
const NO_MA: u64 = u64::MAX;

fn all_digits(s: &str) -> Option<u64> {
    if !s.is_empty() && s.bytes().all(|x| x.is_ascii_digit()) {
        s.parse().ok()
    } else {
        None
    }
}

/// `chain=<s1,s2,…>`: the setters applied left to right to `RetryLayer::builder()` through the public API.
/// The budget handle kept for probes / manual operations is the one handed to the LAST `budget(..)` call.
fn build_chain(chain: &str, us: bool, via: &str) -> (B, Budgets) {
    let mut b = match via {
        "exponential_backoff" => RetryLayer::<Req, IErr>::exponential_backoff(),
        "aggressive" => RetryLayer::<Req, IErr>::aggressive(),
        "conservative" => RetryLayer::<Req, IErr>::conservative(),
        _ => RetryLayer::<Req, IErr>::builder(),
    };
    let mut budgets: Budgets = (None, None);
    for item in chain.split(',') {
        if !item.is_ascii() || item.is_empty() {
            continue;
        }
        let (h1, a1) = item.split_at(1);
        let (h2, a2) = item.split_at(item.len().min(2));
        match (h1, all_digits(a1), h2) {
            ("m", Some(n), _) => b = b.max_attempts(n as usize),
            ("f", Some(n), _) => {
                b = b.max_attempts_fn(move |req: &Req| if req.key == NO_MA { n as usize } else { req.key as usize })
            }
            ("p", Some(mask), _) => b = b.retry_on(move |e: &IErr| e.kind < 64 && (mask >> e.kind) & 1 == 1),
            (_, _, "bf") => b = set_backoff(b, "fixed", a2, '/', us),
            (_, _, "be") => b = set_backoff(b, "exp", a2, '/', us),
            (_, _, "bt") => b = set_backoff(b, "fn", a2, '/', us),
            (_, _, "bi") => b = set_backoff(b, "ifixed", a2, '/', us),
            (_, _, "bx") => b = set_backoff(b, "iexp", a2, '/', us),
            (_, _, "br") => b = set_backoff(b, "rand", a2, '/', us),
            ("n", _, _) => b = b.name(a1),
            ("u", _, _) => {
                let made = mk_budget(a1);
                if let Some(bu) = made.0.clone() {
                    b = b.budget(logged(bu));
                    budgets = made;
                }
            }
            _ => {}
        }
    }
    (b, budgets)
}

impl Adapter {
    pub fn new(kv: &Kv) -> Adapter {
        let us = kv.get("unit") == Some("us");
        let (strict, base) = match (kv.get("ready"), kv.u64("rec", 0)) {
            (None, 0) => (false, Inner::new()),
            (script, rec) => (true, Inner::strict_rec(script.unwrap_or(""), rec, false)),
        };
        let mk = |layer: RetryLayer<Req, IErr>, (budget, aimd): Budgets, dflt_max: u64| Adapter {
            layer,
            base,
            strict,
            svcs: Default::default(),
            handles: Default::default(),
            budget,
            aimd,
            dflt_max,
        };
        if let Some(chain) = kv.get("chain") {
            let (b, budgets) = build_chain(chain, us, kv.get("via").unwrap_or(""));
            return mk(listen(b).build(), budgets, NO_MA);
        }
        let mut b = RetryLayer::<Req, IErr>::builder();
        let dflt_max = kv.u64("max", 3);
        if kv.u64("dyn", 0) == 1 {
            b = b.max_attempts_fn(|req: &Req| req.key as usize);
        } else if let Some(m) = kv.opt_u64("max") {
            b = b.max_attempts(m as usize);
        }
        if let Some(mask) = kv.opt_u64("retry") {
            b = b.retry_on(move |e: &IErr| e.kind < 64 && (mask >> e.kind) & 1 == 1);
        }
        if let Some(bo) = kv.get("bo") {
            let (kind, arg) = bo.split_once(':').unwrap_or((bo, "0"));
            b = set_backoff(b, kind, arg, ',', us);
        }
        if let Some(name) = kv.get("name") {
            b = b.name(name);
        }
        let (budget, aimd) = kv.get("budget").map(mk_budget).unwrap_or((None, None));
        if let Some(bu) = budget.clone() {
            b = b.budget(logged(bu));
        }
        mk(listen(b).build(), (budget, aimd), dflt_max)
    }

    /// service k of the one layer value (built at first use; `lclone`: through a clone of the layer taken now)
    fn service(&mut self, k: u64, lclone: bool) -> &mut Retry<Inner, Req, IErr> {
        if !self.svcs.contains_key(&k) {
            let svc = if lclone { self.layer.clone().layer(self.base.clone()) } else { self.layer.layer(self.base.clone()) };
            self.svcs.insert(k, svc);
        }
        self.svcs.get_mut(&k).unwrap()
    }
}

pub fn render(r: Result<Resp, IErr>) -> String {
    match r {
        Ok(x) => format!("ok:{}", x.v),
        Err(e) => format!("err:inner{}:{}", e.kind, e.v),
    }
}

impl Mw for Adapter {
    fn arrive(&mut self, c: usize, kv: &Kv) -> Option<CallFut> {
        let k = kv.u64("svc", 0);
        let lclone = kv.u64("lclone", 0) == 1;
        let mut req = Req::new(c, kv);
        req.key = kv.u64("ma", self.dflt_max); // per-request max_attempts travels in the request
        // which handle the caller uses: a fresh clone of service k (default), the handle kept for service k, or a
        // clone of that handle taken now
        let mut svc = match kv.get("h") {
            Some(how) => {
                let kept = match self.handles.remove(&k) {
                    Some(h) => h,
                    None => self.service(k, lclone).clone(),
                };
                if how == "clone" {
                    kept.clone()
                } else {
                    kept
                }
            }
            None => self.service(k, lclone).clone(),
        };
        if self.strict {
            // the script is about the readiness polls between attempts: the caller's own check finds the service ready
            self.base.shared.lock().unwrap().ready_script.push_front('r');
        }
        let ready = matches!(poll_ready_once(&mut svc), std::task::Poll::Ready(Ok(())));
        let fut = if ready { Some(Tagged { c, fut: svc.call(req) }) } else { None };
        if kv.get("h").is_some() {
            self.handles.insert(k, svc);
        }
        match fut {
            Some(f) => Some(held(f, render)),
            None => {
                log(format!("result {} notready", c));
                None
            }
        }
    }

    fn probe(&mut self, what: &str, _kv: &Kv) {
        match (what, &self.budget, &self.aimd) {
            ("balance", Some(b), _) => log(format!("probe balance={}", b.balance())),
            ("limit", _, Some(a)) => log(format!("probe limit={}", a.current_max())),
            _ => log("noop".into()),
        }
    }

    /// the budget is a shared `Arc`: other users may deposit / withdraw between the steps of the requests
    fn manual(&mut self, what: &str, _kv: &Kv) {
        match (what, &self.budget) {
            ("deposit", Some(b)) => {
                b.deposit();
                log("probe deposited".into());
            }
            ("withdraw", Some(b)) => log(format!("probe withdraw={}", b.try_withdraw() as u8)),
            _ => log("noop".into()),
        }
    }
}
