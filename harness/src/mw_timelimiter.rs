//! C06: the real `TimeLimiterLayer` (fixed and per-request timeout source, both cancellation
//! modes) over the scripted inner service.
//!
//! header: `timelimiter timeout=<ms> cancel=<0|1> dyn=<0|1>`
//!   dyn=0: `TimeLimiterLayer::builder().timeout_duration(timeout)` (a `timeout=` word on an
//!          `arrive` line is carried by the request but must be ignored by the layer)
//!   dyn=1: `.timeout_fn(|req| …)`: the request's own `timeout=<ms>` (default: the header value)
//!   chain=<s1,s2,…> (optional; replaces timeout/cancel/dyn): the builder chain itself, applied left to
//!          right to `TimeLimiterLayer::builder()` — `d<ms>` = `.timeout_duration(ms)`, `f<ms>` =
//!          `.timeout_fn(|req| …)` (the request's own `timeout=`, else `<ms>`), `c0`/`c1` =
//!          `.cancel_running_future(false/true)`; anything else is skipped. `timeout_duration` and
//!          `timeout_fn` change the builder's type and rebuild it field by field, so the order of the
//!          setters is a dimension of its own (e.g. `c0,f20` vs `f20,c0`); an empty chain (`chain=-`)
//!          is the default builder (fixed 5 s, cancelling).
//! ops:    `arrive <c> [timeout=<ms>] inner=<lat>:<out>`, `poll`, `drop`, `adv`, `settle`, `dropall`
//!         (timeouts are u64 milliseconds: 0 and values up to u64::MAX are meaningful; everywhere a timeout is
//!         written — `timeout=` in the header and on `arrive`, `d…`/`f…` in a chain — `max` stands for
//!         `Duration::MAX`, the idiomatic "no limit": `now + Duration::MAX` is not a representable instant, the
//!         call can never time out)
//!         `manual dropsvc`: the adapter drops its `TimeLimiter` (the only handle it holds; the layer is a
//!         temporary of `new`), i.e. every caller has let go of the service and keeps only its response future,
//!         as `ServiceExt::oneshot` does; later arrivals are answered `noop`.
//!
//! The inner service is `Inner::tied()`: its in-flight calls notice when the last `Inner` instance is dropped
//! (`inner_orphaned <c> <k>`) — the time limiter has to keep the instance a call was made on alive for as long as
//! that call runs, in non-cancelling mode until it has completed in the background.
//!
//! Readiness of the wrapped service (header, all optional): `ready=<script>` — the answers of successive `poll_ready`
//! calls of the inner service ('r' ready, 'p' pending, 'e' error; exhausted: ready), `rec=<ms> recall=1` — after a call
//! on any instance every instance (fresh clones too) is `Pending` for that long (a saturated backend; time-based, with a
//! timer wake-up); `rec=<ms> recall=0` — per-instance recovery (never met through the time limiter: the called instance
//! goes into the response future). With any of them the inner service is `Inner::strict_rec` (tied as well) and logs
//! `inner_call c k tag=<c> ready=<0|1>` — `ready=0`: an instance was called that had not been polled ready.
//! At `arrive` the adapter does what a Tower caller does: clone the service, `poll_ready` once; `Ready(Ok)` -> `call`;
//! `Pending` -> `result c notready` (the caller gives up and drops its clone; the generator retries later under a fresh
//! caller id); `Ready(Err(e))` -> `result c <rendered error>` (`err:inner9:0` for the scripted readiness error). In the
//! last two cases no call is made.
//!
//! Entry points and handles (all optional; an op file without them means what it meant):
//! header  `via=<builder|new|default>`: where the builder comes from — `TimeLimiterLayer::builder()` (default),
//!         `TimeLimiterConfigBuilder::new()`, `TimeLimiterConfigBuilder::default()`; three spellings of one thing.
//!         more chain items: `n<text>` = `.name(text)`, `ls` / `le` / `lt` = `.on_success` / `.on_error` / `.on_timeout`
//!         (counting listeners). None of them touches the timeout source or the mode. The listeners are cross-checked
//!         when a call's result is rendered: every registered `on_timeout` has fired exactly once per `Timeout` result so
//!         far (likewise success / error); a mismatch is appended to the result text as `!listeners:…`.
//! arrive  `svc=<k>`: the call goes through service k; every service is built lazily from the ONE layer value the
//!         adapter keeps (`layer.layer(inner.clone())`; with `lc=1` from a clone of the layer that is dropped at once).
//!         `h=<j>`: the call is made on the kept handle j of that service (`poll_ready` + `call` on the handle itself, no
//!         clone; the handle stays alive: a second `arrive … h=j` while the first call is in flight re-uses it). A
//!         handle that does not exist yet is a clone taken now — of handle `from=<i>` if given and alive, else of the
//!         service's base handle: "a clone taken after a call". Without `h=` the caller clones the base handle, calls the
//!         clone and drops it (as before).
//! manual  `forget svc=<k> h=<j>` drops that handle, `forget svc=<k>` the whole service k (base handle and kept handles;
//!         a later `svc=k` builds a new one), `forget layer=1` the layer value (a later new service gets a layer built
//!         afresh from the header); `dropsvc` drops EVERYTHING: every handle of every service, the layer, the adapter's
//!         own instance of the wrapped service.
//! probe   `source [timeout=<t>] path=<[cb]*>`: the timeout source the header asks for, constructed stand-alone through
//!         the public constructors (`FixedTimeout::new(d)` / `DynamicTimeout::new(f)`), then copied along `path`
//!         ('c' = `Clone::clone` of the concrete value, 'b' = `TimeoutFn::clone_box`, also of a boxed one), is asked
//!         for the timeout of a request carrying `timeout=<t>`: logged as `probe source <ms|max>`.
//!         `woken c=<c>`: has the waker of caller c's call future fired — outside a poll of that future — since the
//!         future was last polled?  (Every call future is wrapped in `Watched`, which hands the limiter's future a
//!         recording waker and forwards every wake-up to the poller's.)  Logged as `probe woken <c>` with the answer as
//!         the observed choice `@woken=<0|1>` on the op line and as meta line `#woken <c> <t> <0|1>`: a waker may fire
//!         spuriously, but once min(done, deadline) has been reached it must have fired (the model checks the obligation:
//!         `probe woken <c> lost-wakeup` otherwise).  0 for a call never polled, resolved or dropped.
//! Mutable state read by the timeout function (optional; an op file without it means what it meant):
//! manual  `knob v=<ms|max>` / `knob v=-`: the `timeout_fn` closure (`f…` in the chain, `dyn=1`) answers the request's own
//!         `timeout=`, else the CURRENT value of the knob, else its default — a closure may read anything, e.g. a budget an
//!         operator turns at run time.  `call()` asks the timeout source: what counts is the knob when the call is MADE
//!         (`arrive`), not when the response future is first polled (which may be much later, and in another order than
//!         the calls were made).  A fixed source never reads it.  `probe source` reads it as well.  Meta `#knob <t> <v>`.
//! Construction context (optional; an op file without it means what it meant):
//! header  `built=<here|other-idle|other-dropped>`: which tokio runtime is CURRENT while the layer value and the services are
//!         constructed (the builder chain, `.build()`, `Layer::layer` -> `TimeLimiter::new`).  `here` (default): the case's
//!         own runtime, the one every call is made and polled on.  `other-idle`: a SECOND current-thread runtime (time
//!         enabled, not paused), entered (`Runtime::enter`) only for the construction and then kept alive but never driven —
//!         a start-up `block_on` that has returned; one such runtime per case, kept until the adapter goes away.
//!         `other-dropped`: a throw-away second runtime per construction, entered for it and shut down right after — the
//!         start-up runtime is gone when the first call is made.  Clones of handles are always taken on the case's runtime.
//! arrive  `built=<…>`: the same for the service (and, after `forget layer=1`, the layer value) THIS arrival builds lazily;
//!         default: the header's.  Meta line `#built <t> svc=<k> <where>` for every service built elsewhere.
//!         A time limiter is a value: what it does must not depend on which runtime happened to be current when it was
//!         assembled; the calls — timers, the detached task of the non-cancelling mode — belong to the runtime they are
//!         made on (`tokio::spawn`, `tokio::time::sleep`).
//! Results are rendered through the error type's accessors as well as by pattern: `is_timeout()`, `into_inner()` and the
//! conversion into `ResilienceError` must say what the variant says; if not, `!accessors:…` is appended to the text.
//!
//! No observed choices: since the repair "time limiter without cancellation prefers a finished
//! inner call over the timeout" the non-cancel `select!` is biased (oneshot first), so the layer
//! is deterministic under the harness and the model takes no `@…` input.
use crate::world::*;
use std::cell::{Cell, RefCell};
use std::collections::{BTreeMap, HashMap};
use std::future::Future;
use std::pin::Pin;
use std::sync::atomic::{AtomicBool, Ordering};
use std::sync::{Arc, Mutex};
use std::task::{Context, Poll, Wake, Waker};
use std::time::Duration;
use tower::{Layer, Service};
use tower_resilience_core::ResilienceError;
use tower_resilience_timelimiter::{
    DynamicTimeout, FixedTimeout, TimeLimiter, TimeLimiterConfigBuilder, TimeLimiterError, TimeLimiterLayer, TimeoutFn,
};

type DynFn = Box<dyn Fn(&Req) -> Duration + Send + Sync>;

enum Svc {
    Fixed(TimeLimiter<Inner, FixedTimeout>),
    Dyn(TimeLimiter<Inner, DynamicTimeout<DynFn>>),
}

/// the one layer value the services are built from
enum LayerV {
    Fixed(TimeLimiterLayer<FixedTimeout>),
    Dyn(TimeLimiterLayer<DynamicTimeout<DynFn>>),
}

impl LayerV {
    fn make(&self, inner: Inner) -> Svc {
        match self {
            LayerV::Fixed(l) => Svc::Fixed(l.layer(inner)),
            LayerV::Dyn(l) => Svc::Dyn(l.layer(inner)),
        }
    }
    fn dup(&self) -> LayerV {
        match self {
            LayerV::Fixed(l) => LayerV::Fixed(l.clone()),
            LayerV::Dyn(l) => LayerV::Dyn(l.clone()),
        }
    }
}

/// the builder between two setter calls: its type depends on the last timeout setter
enum Builder {
    Fixed(TimeLimiterConfigBuilder<FixedTimeout>),
    Dyn(TimeLimiterConfigBuilder<DynamicTimeout<DynFn>>),
}

/// a setter that keeps the builder's type, applied to whichever type it has
macro_rules! same_type {
    ($b:expr, $x:ident => $e:expr) => {
        match $b {
            Builder::Fixed($x) => Builder::Fixed($e),
            Builder::Dyn($x) => Builder::Dyn($e),
        }
    };
}

/// `<ms>` or `max` (= `Duration::MAX`)
fn tmo(s: &str) -> Option<Duration> {
    if s == "max" {
        Some(Duration::MAX)
    } else if !s.is_empty() && s.bytes().all(|x| x.is_ascii_digit()) {
        s.parse::<u64>().ok().map(Duration::from_millis)
    } else {
        None
    }
}

fn tmo_text(d: Duration) -> String {
    if d == Duration::MAX {
        "max".into()
    } else {
        d.as_millis().to_string()
    }
}

type PerReq = Arc<Mutex<HashMap<usize, Duration>>>;

/// the key of the per-request table under which the KNOB lives (`manual knob v=<ms|max|->`): mutable state the
/// `timeout_fn` closure reads besides the request — no request has this id
const KNOB: usize = usize::MAX;

/// the `timeout_fn` closure: the request's own timeout, else the knob's CURRENT value, else the default
fn extractor(table: &PerReq, dflt: Duration) -> DynFn {
    let table = table.clone();
    Box::new(move |req: &Req| {
        let t = table.lock().unwrap();
        t.get(&req.c).or_else(|| t.get(&KNOB)).cloned().unwrap_or(dflt)
    })
}

// listeners registered through the chain: registrations / firings / call results rendered, per kind
// (0 success, 1 error, 2 timeout); the harness is single-threaded, one case at a time
thread_local! {
    static ARMED: Cell<[u64; 3]> = const { Cell::new([0; 3]) };
    static FIRED: Cell<[u64; 3]> = const { Cell::new([0; 3]) };
    static SEEN: Cell<[u64; 3]> = const { Cell::new([0; 3]) };
}
fn bump(k: &'static std::thread::LocalKey<Cell<[u64; 3]>>, i: usize) {
    k.with(|c| {
        let mut a = c.get();
        a[i] += 1;
        c.set(a);
    });
}

/// what the header asks the builder for, as a chain (the old `timeout= cancel= dyn=` form is the chain it always was:
/// source first, flag second)
fn chain_of(kv: &Kv) -> String {
    if let Some(chain) = kv.get("chain") {
        return chain.to_string();
    }
    let timeout = kv.get("timeout").and_then(tmo).unwrap_or(Duration::from_millis(5000));
    let cancel = kv.u64("cancel", 1) != 0;
    let dynamic = kv.u64("dyn", 0) != 0;
    format!("{}{},c{}", if dynamic { "f" } else { "d" }, tmo_text(timeout), cancel as u8)
}

/// apply the setters of `chain` in order through the public builder API; also: the arguments of the timeout setter
/// applied last (what a stand-alone timeout source has to be constructed with: `probe source`)
/// (`arm`: the counting listeners of the chain are counted as registrations — the first time the header's chain is built;
/// a layer built again from the same header carries the same listeners, every call fires those of its own layer)
fn build_chain(via: &str, chain: &str, table: &PerReq, arm: bool) -> (LayerV, (bool, Duration)) {
    let mut b = Builder::Fixed(match via {
        "new" => TimeLimiterConfigBuilder::new(),
        "default" => TimeLimiterConfigBuilder::<FixedTimeout>::default(),
        _ => TimeLimiterLayer::builder(),
    });
    let mut src = (false, Duration::from_secs(5));
    for item in chain.split(',') {
        let (head, arg) = if item.is_char_boundary(item.len().min(1)) { item.split_at(item.len().min(1)) } else { ("", "") };
        let num = if arg.bytes().all(|x| x.is_ascii_digit()) { arg.parse::<u64>().ok() } else { None };
        let dur = tmo(arg);
        b = match (head, dur, num, b) {
            ("d", Some(d), _, Builder::Fixed(x)) => {
                src = (false, d);
                Builder::Fixed(x.timeout_duration(d))
            }
            ("d", Some(d), _, Builder::Dyn(x)) => {
                src = (false, d);
                Builder::Fixed(x.timeout_duration(d))
            }
            ("f", Some(d), _, Builder::Fixed(x)) => {
                src = (true, d);
                Builder::Dyn(x.timeout_fn(extractor(table, d)))
            }
            ("f", Some(d), _, Builder::Dyn(x)) => {
                src = (true, d);
                Builder::Dyn(x.timeout_fn(extractor(table, d)))
            }
            ("c", _, Some(v), b) if v <= 1 => same_type!(b, x => x.cancel_running_future(v == 1)),
            ("n", _, _, b) => same_type!(b, x => x.name(arg)),
            ("l", _, _, b) if arg == "s" => {
                if arm {
                    bump(&ARMED, 0);
                }
                same_type!(b, x => x.on_success(|_| bump(&FIRED, 0)))
            }
            ("l", _, _, b) if arg == "e" => {
                if arm {
                    bump(&ARMED, 1);
                }
                same_type!(b, x => x.on_error(|_| bump(&FIRED, 1)))
            }
            ("l", _, _, b) if arg == "t" => {
                if arm {
                    bump(&ARMED, 2);
                }
                same_type!(b, x => x.on_timeout(|| bump(&FIRED, 2)))
            }
            (_, _, _, b) => b,
        };
    }
    let layer = match b {
        Builder::Fixed(x) => LayerV::Fixed(x.build()),
        Builder::Dyn(x) => LayerV::Dyn(x.build()),
    };
    (layer, src)
}

/// the wrapped service: `Inner::tied()`, with the readiness behaviour the header asks for (`ready=`, `rec=`, `recall=`)
fn wrapped(kv: &Kv) -> Inner {
    if kv.get("ready").is_none() && kv.get("rec").is_none() {
        return Inner::tied();
    }
    let i = Inner::strict_rec(kv.get("ready").unwrap_or(""), kv.u64("rec", 0), kv.u64("recall", 0) == 1);
    {
        let mut sh = i.shared.lock().unwrap();
        sh.tied = true;
        sh.handles = 1;
    }
    i
}

/// which runtime is current while something is constructed (`built=`)
#[derive(Clone, Copy, PartialEq)]
enum Built {
    Here,
    OtherIdle,
    OtherDropped,
}

impl Built {
    fn parse(s: Option<&str>) -> Option<Built> {
        match s {
            Some("here") => Some(Built::Here),
            Some("other-idle") => Some(Built::OtherIdle),
            Some("other-dropped") => Some(Built::OtherDropped),
            _ => None,
        }
    }
    fn text(self) -> &'static str {
        match self {
            Built::Here => "here",
            Built::OtherIdle => "other-idle",
            Built::OtherDropped => "other-dropped",
        }
    }
}

/// a second tokio runtime of this thread: never driven (no `block_on`), only entered for constructions.  A runtime must not
/// be dropped where blocking is not allowed (we are inside the case's `block_on`): `shutdown_background` is the drop that
/// does not wait for the (empty) blocking pool — the scheduler is shut down, tasks handed to it from then on are dropped
/// at once, exactly as after `drop(runtime)`.
struct Elsewhere(Option<tokio::runtime::Runtime>);

impl Elsewhere {
    fn new() -> Elsewhere {
        Elsewhere(Some(tokio::runtime::Builder::new_current_thread().enable_time().build().expect("second runtime")))
    }
    /// run `f` with this runtime current (`Handle::try_current()` answers it), then make the case's runtime current again
    fn within<R>(&self, f: impl FnOnce() -> R) -> R {
        let _enter = self.0.as_ref().expect("second runtime alive").enter();
        f()
    }
}

impl Drop for Elsewhere {
    fn drop(&mut self) {
        if let Some(rt) = self.0.take() {
            rt.shutdown_background();
        }
    }
}

/// run a construction in the context `built` asks for (`idle`: the case's kept second runtime, made when first needed)
fn construct<R>(built: Built, idle: &mut Option<Elsewhere>, f: impl FnOnce() -> R) -> R {
    match built {
        Built::Here => f(),
        Built::OtherIdle => idle.get_or_insert_with(Elsewhere::new).within(f),
        Built::OtherDropped => {
            let rt = Elsewhere::new();
            let r = rt.within(f);
            drop(rt);
            r
        }
    }
}

/// one service built from the layer: the handle `layer()` returned, and the handles callers keep
struct Entry {
    base: Svc,
    handles: BTreeMap<u64, Svc>,
}

pub struct Adapter {
    header: Kv,
    /// the adapter's own instance of the wrapped service (every service wraps a clone of it); `None` after `dropsvc`
    inner: Option<Inner>,
    /// the layer value; `None` after `forget layer=1` (rebuilt from the header when next needed) and after `dropsvc`
    layer: Option<LayerV>,
    svcs: BTreeMap<u64, Entry>,
    /// `manual dropsvc` has dropped everything
    gone: bool,
    /// per-request timeout carried "in the request": caller id -> timeout (the request type of the
    /// harness has no such field, so the extractor closure looks it up by the request's caller id)
    per_req: PerReq,
    /// arguments of the timeout setter the chain applied last: (per-request?, duration / default)
    src: (bool, Duration),
    /// the header's construction context, and the second runtime of `other-idle` (kept, never driven); declared last: it
    /// outlives every service built under it
    built: Built,
    idle: Option<Elsewhere>,
}

impl Adapter {
    pub fn new(kv: &Kv) -> Adapter {
        for k in [&ARMED, &FIRED, &SEEN] {
            k.with(|c| c.set([0; 3]));
        }
        WATCH.with(|m| m.borrow_mut().clear());
        let per_req: PerReq = Arc::new(Mutex::new(HashMap::new()));
        let inner = wrapped(kv);
        let built = Built::parse(kv.get("built")).unwrap_or(Built::Here);
        let mut idle = None;
        let ((layer, src), base) = construct(built, &mut idle, || {
            let made = build_chain(kv.get("via").unwrap_or("builder"), &chain_of(kv), &per_req, true);
            let base = made.0.make(inner.clone());
            (made, base)
        });
        if built != Built::Here {
            log_raw(format!("#built {} svc=0 {}", now_ms(), built.text()));
        }
        let mut svcs = BTreeMap::new();
        svcs.insert(0, Entry { base, handles: BTreeMap::new() });
        Adapter { header: kv.clone(), inner: Some(inner), layer: Some(layer), svcs, gone: false, per_req, src, built, idle }
    }
}

/// the layer value again, from the header (after `forget layer=1`)
fn build_layer(header: &Kv, per_req: &PerReq) -> LayerV {
    build_chain(header.get("via").unwrap_or("builder"), &chain_of(header), per_req, false).0
}

fn inner_text(e: &IErr) -> String {
    format!("inner{}:{}", e.kind, e.v)
}

/// an error of the layer: by pattern, and through `is_timeout()` / `into_inner()` / `ResilienceError::from`; -> (kind, text)
fn render_err(e: TimeLimiterError<IErr>) -> (usize, String) {
    let (kind, mut text, twin) = match &e {
        TimeLimiterError::Timeout => (2, "err:timeout".to_string(), TimeLimiterError::Timeout),
        TimeLimiterError::Inner(i) => (1, format!("err:{}", inner_text(i)), TimeLimiterError::Inner(i.clone())),
    };
    let want_inner = match &e {
        TimeLimiterError::Timeout => None,
        TimeLimiterError::Inner(i) => Some(i.clone()),
    };
    let is_t = e.is_timeout();
    let got_inner = e.into_inner();
    let conv: ResilienceError<IErr> = twin.into();
    let conv_text = match &conv {
        ResilienceError::Timeout { layer } => format!("timeout({})", layer),
        ResilienceError::Application(i) => format!("application:{}", inner_text(i)),
        _ => "other".to_string(),
    };
    let conv_ok = match (&conv, &want_inner) {
        (ResilienceError::Timeout { .. }, None) => conv.is_timeout() && !conv.is_application(),
        (ResilienceError::Application(i), Some(w)) => i == w && conv.is_application() && !conv.is_timeout(),
        _ => false,
    };
    if is_t != (kind == 2) || got_inner != want_inner || !conv_ok {
        text.push_str(&format!(
            "!accessors:is_timeout={},into_inner={},as_resilience={}",
            is_t,
            got_inner.as_ref().map(inner_text).unwrap_or("none".into()),
            conv_text
        ));
    }
    (kind, text)
}

/// the result of a call (a response future that resolved)
pub fn render(r: Result<Resp, TimeLimiterError<IErr>>) -> String {
    let (kind, mut text) = match r {
        Ok(x) => (0, format!("ok:{}", x.v)),
        Err(e) => render_err(e),
    };
    bump(&SEEN, kind);
    let (armed, fired, seen) = (ARMED.with(|c| c.get()), FIRED.with(|c| c.get()), SEEN.with(|c| c.get()));
    if (0..3).any(|i| fired[i] != armed[i] * seen[i]) {
        text.push_str(&format!(
            "!listeners:registered={}/{}/{},fired={}/{}/{},results={}/{}/{}",
            armed[0], armed[1], armed[2], fired[0], fired[1], fired[2], seen[0], seen[1], seen[2]
        ));
        // report once: resynchronise
        FIRED.with(|c| c.set([armed[0] * seen[0], armed[1] * seen[1], armed[2] * seen[2]]));
    }
    text
}

// ------------------------------------------------------------------ wake-ups of a pending call future (`probe woken`)

/// the waker handed to a call future: remembers that it fired (outside a poll of that future: a future that wakes
/// itself while being polled — a yield, an exhausted cooperative budget — is simply polled again by the poller) and
/// forwards the wake-up to the poller's own waker
struct WakeRec {
    outer: Mutex<Option<Waker>>,
    fired: AtomicBool,
    in_poll: AtomicBool,
}
impl Wake for WakeRec {
    fn wake(self: Arc<Self>) {
        self.wake_by_ref();
    }
    fn wake_by_ref(self: &Arc<Self>) {
        if !self.in_poll.load(Ordering::SeqCst) {
            self.fired.store(true, Ordering::SeqCst);
        }
        let w = self.outer.lock().unwrap_or_else(|e| e.into_inner()).clone();
        if let Some(w) = w {
            w.wake_by_ref();
        }
    }
}

thread_local! {
    /// caller -> the recording waker of its pending call future
    static WATCH: RefCell<BTreeMap<usize, Arc<WakeRec>>> = const { RefCell::new(BTreeMap::new()) };
}

struct Watched {
    c: usize,
    fut: CallFut,
    rec: Arc<WakeRec>,
}
fn watched(c: usize, fut: CallFut) -> CallFut {
    let rec = Arc::new(WakeRec { outer: Mutex::new(None), fired: AtomicBool::new(false), in_poll: AtomicBool::new(false) });
    WATCH.with(|m| m.borrow_mut().insert(c, rec.clone()));
    Box::pin(Watched { c, fut, rec })
}
impl Future for Watched {
    type Output = String;
    fn poll(self: Pin<&mut Self>, cx: &mut Context<'_>) -> Poll<String> {
        let this = self.get_mut();
        *this.rec.outer.lock().unwrap_or_else(|e| e.into_inner()) = Some(cx.waker().clone());
        this.rec.fired.store(false, Ordering::SeqCst);
        this.rec.in_poll.store(true, Ordering::SeqCst);
        let w = Waker::from(this.rec.clone());
        let mut cx2 = Context::from_waker(&w);
        let r = this.fut.as_mut().poll(&mut cx2);
        this.rec.in_poll.store(false, Ordering::SeqCst);
        if r.is_ready() {
            let c = this.c;
            let _ = WATCH.try_with(|m| m.borrow_mut().remove(&c));
        }
        r
    }
}
impl Drop for Watched {
    fn drop(&mut self) {
        let c = self.c;
        let _ = WATCH.try_with(|m| m.borrow_mut().remove(&c));
    }
}

/// what a Tower caller does with a handle: `poll_ready` first; anything but `Ready(Ok)` and no call is made
fn call_on<S>(svc: &mut S, c: usize, req: Req) -> Option<CallFut>
where
    S: Service<Req, Response = Resp, Error = TimeLimiterError<IErr>>,
    S::Future: 'static,
{
    match poll_ready_once(svc) {
        std::task::Poll::Ready(Ok(())) => {}
        std::task::Poll::Ready(Err(e)) => {
            log(format!("result {} {}", c, render_err(e).1));
            return None;
        }
        std::task::Poll::Pending => {
            log(format!("result {} notready", c));
            return None;
        }
    }
    let fut = svc.call(req);
    Some(watched(c, held(fut, render)))
}

impl Svc {
    fn dup(&self) -> Svc {
        match self {
            Svc::Fixed(s) => Svc::Fixed(s.clone()),
            Svc::Dyn(s) => Svc::Dyn(s.clone()),
        }
    }
    fn call_on(&mut self, c: usize, req: Req) -> Option<CallFut> {
        match self {
            Svc::Fixed(s) => call_on(s, c, req),
            Svc::Dyn(s) => call_on(s, c, req),
        }
    }
}

/// the stand-alone timeout source of `probe source`, on its way along the copy path
enum Src {
    Fixed(FixedTimeout),
    Dyn(DynamicTimeout<DynFn>),
    Boxed(Box<dyn TimeoutFn<Req>>),
}

impl Mw for Adapter {
    fn arrive(&mut self, c: usize, kv: &Kv) -> Option<CallFut> {
        if self.gone {
            log_raw("noop".into());
            return None;
        }
        if let Some(d) = kv.get("timeout").and_then(tmo) {
            self.per_req.lock().unwrap().insert(c, d);
        }
        let req = Req::new(c, kv);
        let k = kv.u64("svc", 0);
        if !self.svcs.contains_key(&k) {
            let built = Built::parse(kv.get("built")).unwrap_or(self.built);
            let inner = self.inner.as_ref().unwrap().clone();
            let (header, per_req, layer_slot) = (&self.header, &self.per_req, &mut self.layer);
            let via_clone = kv.u64("lc", 0) == 1;
            let base = construct(built, &mut self.idle, || {
                let layer = layer_slot.get_or_insert_with(|| build_layer(header, per_req));
                if via_clone {
                    layer.dup().make(inner)
                } else {
                    layer.make(inner)
                }
            });
            if built != Built::Here {
                log_raw(format!("#built {} svc={} {}", now_ms(), k, built.text()));
            }
            self.svcs.insert(k, Entry { base, handles: BTreeMap::new() });
        }
        let entry = self.svcs.get_mut(&k).unwrap();
        match kv.opt_u64("h") {
            // the caller clones the service's handle, calls the clone and lets go of it
            None => entry.base.dup().call_on(c, req),
            Some(j) => {
                if !entry.handles.contains_key(&j) {
                    let from = kv.opt_u64("from").and_then(|i| entry.handles.get(&i)).unwrap_or(&entry.base);
                    let h = from.dup();
                    entry.handles.insert(j, h);
                }
                entry.handles.get_mut(&j).unwrap().call_on(c, req)
            }
        }
    }
    fn manual(&mut self, what: &str, kv: &Kv) {
        if what == "dropsvc" && !self.gone {
            log_raw(format!("#dropsvc {}", now_ms()));
            self.svcs.clear();
            self.layer = None;
            self.inner = None;
            self.gone = true;
        }
        if what == "knob" {
            // also after `dropsvc`: the state the closure reads is not part of the service
            match kv.get("v").and_then(tmo) {
                Some(d) => {
                    self.per_req.lock().unwrap().insert(KNOB, d);
                    log_raw(format!("#knob {} {}", now_ms(), tmo_text(d)));
                }
                None => {
                    self.per_req.lock().unwrap().remove(&KNOB);
                    log_raw(format!("#knob {} -", now_ms()));
                }
            }
        }
        if what == "forget" && !self.gone {
            if kv.get("layer").is_some() {
                log_raw(format!("#forget {} layer", now_ms()));
                self.layer = None;
            } else if let Some(k) = kv.opt_u64("svc") {
                match kv.opt_u64("h") {
                    Some(j) => {
                        if let Some(e) = self.svcs.get_mut(&k) {
                            if e.handles.remove(&j).is_some() {
                                log_raw(format!("#forget {} svc={} h={}", now_ms(), k, j));
                            }
                        }
                    }
                    None => {
                        if self.svcs.remove(&k).is_some() {
                            log_raw(format!("#forget {} svc={}", now_ms(), k));
                        }
                    }
                }
            }
        }
    }
    fn probe(&mut self, what: &str, kv: &Kv) {
        if what == "woken" {
            let c = kv.u64("c", 0) as usize;
            let fired = WATCH.with(|m| m.borrow().get(&c).map(|r| r.fired.load(Ordering::SeqCst)).unwrap_or(false));
            obs("woken", fired as u8);
            log_raw(format!("#woken {} {} {}", c, now_ms(), fired as u8));
            log(format!("probe woken {}", c));
            return;
        }
        if what != "source" {
            return;
        }
        // a request of its own (an id no caller has), carrying `timeout=` if the probe says so
        let c = usize::MAX - 1;
        match kv.get("timeout").and_then(tmo) {
            Some(d) => self.per_req.lock().unwrap().insert(c, d),
            None => self.per_req.lock().unwrap().remove(&c),
        };
        let req = Req::new(c, kv);
        let (dynamic, d) = self.src;
        let mut s = if dynamic { Src::Dyn(DynamicTimeout::new(extractor(&self.per_req, d))) } else { Src::Fixed(FixedTimeout::new(d)) };
        for step in kv.get("path").unwrap_or("").chars() {
            s = match (step, s) {
                ('c', Src::Fixed(x)) => Src::Fixed(Clone::clone(&x)),
                ('c', Src::Dyn(x)) => Src::Dyn(x.clone()),
                ('b', Src::Fixed(x)) => Src::Boxed(TimeoutFn::<Req>::clone_box(&x)),
                ('b', Src::Dyn(x)) => Src::Boxed(TimeoutFn::<Req>::clone_box(&x)),
                ('b', Src::Boxed(x)) => Src::Boxed(x.clone_box()),
                (_, s) => s,
            };
        }
        let t = match &s {
            Src::Fixed(x) => x.get_timeout(&req),
            Src::Dyn(x) => x.get_timeout(&req),
            Src::Boxed(x) => x.get_timeout(&req),
        };
        self.per_req.lock().unwrap().remove(&c);
        log(format!("probe source {}", tmo_text(t)));
    }
    /// non-cancel mode spawns the inner call: let the task run (and its completion propagate)
    fn yields(&self) -> usize {
        3
    }
}
