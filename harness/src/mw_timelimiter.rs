//! C06: the real `TimeLimiterLayer` (fixed and per-request timeout source, both cancellation
//! modes) over the scripted inner service.
//!
//! header: `timelimiter timeout=<ms> cancel=<0|1> dyn=<0|1>`
//!   dyn=0: `TimeLimiterLayer::builder().timeout_duration(timeout)` (a `timeout=` word on an
//!          `arrive` line is carried by the request but must be ignored by the layer)
//!   dyn=1: `.timeout_fn(|req| …)`: the request's own `timeout=<ms>` (default: the header value)
//!   chain=<s1,s2,…> (optional; replaces timeout/cancel/dyn): the builder chain itself, applied left to
//!          right to `TimeLimiterLayer::builder()` — `d<ms>` = `.timeout_duration(ms)`, `f<ms>` =
//!          `.timeout_fn(|req| …)` (the request's own `timeout=`, else `<ms>`), `c0`/`c1` =
//!          `.cancel_running_future(false/true)`; anything else is skipped. `timeout_duration` and
//!          `timeout_fn` change the builder's type and rebuild it field by field, so the order of the
//!          setters is a dimension of its own (e.g. `c0,f20` vs `f20,c0`); an empty chain (`chain=-`)
//!          is the default builder (fixed 5 s, cancelling).
//! ops:    `arrive <c> [timeout=<ms>] inner=<lat>:<out>`, `poll`, `drop`, `adv`, `settle`, `dropall`
//!         (timeouts are u64 milliseconds: 0 and values up to u64::MAX are meaningful)
//!
//! No observed choices: since the repair "time limiter without cancellation prefers a finished
//! inner call over the timeout" the non-cancel `select!` is biased (oneshot first), so the layer
//! is deterministic under the harness and the model takes no `@…` input.
use crate::world::*;
use std::collections::HashMap;
use std::sync::{Arc, Mutex};
use std::time::Duration;
use tower::{Layer, Service};
use tower_resilience_timelimiter::{
    DynamicTimeout, FixedTimeout, TimeLimiter, TimeLimiterConfigBuilder, TimeLimiterError, TimeLimiterLayer,
};

type DynFn = Box<dyn Fn(&Req) -> Duration + Send + Sync>;

enum Svc {
    Fixed(TimeLimiter<Inner, FixedTimeout>),
    Dyn(TimeLimiter<Inner, DynamicTimeout<DynFn>>),
}

/// the builder between two setter calls: its type depends on the last timeout setter
enum Builder {
    Fixed(TimeLimiterConfigBuilder<FixedTimeout>),
    Dyn(TimeLimiterConfigBuilder<DynamicTimeout<DynFn>>),
}

fn extractor(table: &Arc<Mutex<HashMap<usize, u64>>>, dflt: u64) -> DynFn {
    let table = table.clone();
    Box::new(move |req: &Req| {
        let ms = table.lock().unwrap().get(&req.c).cloned().unwrap_or(dflt);
        Duration::from_millis(ms)
    })
}

/// apply the setters of `chain` in order through the public builder API
fn build_chain(chain: &str, table: &Arc<Mutex<HashMap<usize, u64>>>) -> Svc {
    let mut b = Builder::Fixed(TimeLimiterLayer::builder());
    for item in chain.split(',') {
        let (head, arg) = if item.is_char_boundary(item.len().min(1)) { item.split_at(item.len().min(1)) } else { ("", "") };
        let num = if arg.bytes().all(|x| x.is_ascii_digit()) { arg.parse::<u64>().ok() } else { None };
        b = match (head, num, b) {
            ("d", Some(ms), Builder::Fixed(x)) => Builder::Fixed(x.timeout_duration(Duration::from_millis(ms))),
            ("d", Some(ms), Builder::Dyn(x)) => Builder::Fixed(x.timeout_duration(Duration::from_millis(ms))),
            ("f", Some(ms), Builder::Fixed(x)) => Builder::Dyn(x.timeout_fn(extractor(table, ms))),
            ("f", Some(ms), Builder::Dyn(x)) => Builder::Dyn(x.timeout_fn(extractor(table, ms))),
            ("c", Some(v), Builder::Fixed(x)) if v <= 1 => Builder::Fixed(x.cancel_running_future(v == 1)),
            ("c", Some(v), Builder::Dyn(x)) if v <= 1 => Builder::Dyn(x.cancel_running_future(v == 1)),
            (_, _, b) => b,
        };
    }
    match b {
        Builder::Fixed(x) => Svc::Fixed(x.build().layer(Inner::new())),
        Builder::Dyn(x) => Svc::Dyn(x.build().layer(Inner::new())),
    }
}

pub struct Adapter {
    svc: Svc,
    /// per-request timeout carried "in the request": caller id -> ms (the request type of the
    /// harness has no such field, so the extractor closure looks it up by the request's caller id)
    per_req: Arc<Mutex<HashMap<usize, u64>>>,
}

impl Adapter {
    pub fn new(kv: &Kv) -> Adapter {
        let timeout = kv.u64("timeout", 5000);
        let cancel = kv.u64("cancel", 1) != 0;
        let dynamic = kv.u64("dyn", 0) != 0;
        let per_req: Arc<Mutex<HashMap<usize, u64>>> = Arc::new(Mutex::new(HashMap::new()));
        let svc = if let Some(chain) = kv.get("chain") {
            build_chain(chain, &per_req)
        } else if dynamic {
            let f = extractor(&per_req, timeout);
            let layer = TimeLimiterLayer::builder().timeout_fn(f).cancel_running_future(cancel).build();
            Svc::Dyn(layer.layer(Inner::new()))
        } else {
            let layer = TimeLimiterLayer::builder()
                .timeout_duration(Duration::from_millis(timeout))
                .cancel_running_future(cancel)
                .build();
            Svc::Fixed(layer.layer(Inner::new()))
        };
        Adapter { svc, per_req }
    }
}

pub fn render(r: &Result<Resp, TimeLimiterError<IErr>>) -> String {
    match r {
        Ok(x) => format!("ok:{}", x.v),
        Err(TimeLimiterError::Inner(e)) => format!("err:inner{}:{}", e.kind, e.v),
        Err(TimeLimiterError::Timeout) => "err:timeout".into(),
    }
}

fn start<S>(svc: &S, c: usize, req: Req) -> Option<CallFut>
where
    S: Service<Req, Response = Resp, Error = TimeLimiterError<IErr>> + Clone,
    S::Future: 'static,
{
    let mut svc = svc.clone();
    match poll_ready_once(&mut svc) {
        std::task::Poll::Ready(Ok(())) => {}
        _ => {
            log(format!("result {} notready", c));
            return None;
        }
    }
    let fut = svc.call(req);
    Some(held(fut, |r| render(&r)))
}

impl Mw for Adapter {
    fn arrive(&mut self, c: usize, kv: &Kv) -> Option<CallFut> {
        if let Some(ms) = kv.opt_u64("timeout") {
            self.per_req.lock().unwrap().insert(c, ms);
        }
        let req = Req::new(c, kv);
        match &self.svc {
            Svc::Fixed(s) => start(s, c, req),
            Svc::Dyn(s) => start(s, c, req),
        }
    }
    /// non-cancel mode spawns the inner call: let the task run (and its completion propagate)
    fn yields(&self) -> usize {
        3
    }
}
