//! C06: the real `TimeLimiterLayer` (fixed and per-request timeout source, both cancellation
//! modes) over the scripted inner service.
//!
//! header: `timelimiter timeout=<ms> cancel=<0|1> dyn=<0|1>`
//!   dyn=0: `TimeLimiterLayer::builder().timeout_duration(timeout)` (a `timeout=` word on an
//!          `arrive` line is carried by the request but must be ignored by the layer)
//!   dyn=1: `.timeout_fn(|req| …)`: the request's own `timeout=<ms>` (default: the header value)
//!   chain=<s1,s2,…> (optional; replaces timeout/cancel/dyn): the builder chain itself, applied left to
//!          right to `TimeLimiterLayer::builder()` — `d<ms>` = `.timeout_duration(ms)`, `f<ms>` =
//!          `.timeout_fn(|req| …)` (the request's own `timeout=`, else `<ms>`), `c0`/`c1` =
//!          `.cancel_running_future(false/true)`; anything else is skipped. `timeout_duration` and
//!          `timeout_fn` change the builder's type and rebuild it field by field, so the order of the
//!          setters is a dimension of its own (e.g. `c0,f20` vs `f20,c0`); an empty chain (`chain=-`)
//!          is the default builder (fixed 5 s, cancelling).
//! ops:    `arrive <c> [timeout=<ms>] inner=<lat>:<out>`, `poll`, `drop`, `adv`, `settle`, `dropall`
//!         (timeouts are u64 milliseconds: 0 and values up to u64::MAX are meaningful; everywhere a timeout is
//!         written — `timeout=` in the header and on `arrive`, `d…`/`f…` in a chain — `max` stands for
//!         `Duration::MAX`, the idiomatic "no limit": `now + Duration::MAX` is not a representable instant, the
//!         call can never time out)
//!         `manual dropsvc`: the adapter drops its `TimeLimiter` (the only handle it holds; the layer is a
//!         temporary of `new`), i.e. every caller has let go of the service and keeps only its response future,
//!         as `ServiceExt::oneshot` does; later arrivals are answered `noop`.
//!
//! The inner service is `Inner::tied()`: its in-flight calls notice when the last `Inner` instance is dropped
//! (`inner_orphaned <c> <k>`) — the time limiter has to keep the instance a call was made on alive for as long as
//! that call runs, in non-cancelling mode until it has completed in the background.
//!
//! Readiness of the wrapped service (header, all optional): `ready=<script>` — the answers of successive `poll_ready`
//! calls of the inner service ('r' ready, 'p' pending, 'e' error; exhausted: ready), `rec=<ms> recall=1` — after a call
//! on any instance every instance (fresh clones too) is `Pending` for that long (a saturated backend; time-based, with a
//! timer wake-up); `rec=<ms> recall=0` — per-instance recovery (never met through the time limiter: the called instance
//! goes into the response future). With any of them the inner service is `Inner::strict_rec` (tied as well) and logs
//! `inner_call c k tag=<c> ready=<0|1>` — `ready=0`: an instance was called that had not been polled ready.
//! At `arrive` the adapter does what a Tower caller does: clone the service, `poll_ready` once; `Ready(Ok)` -> `call`;
//! `Pending` -> `result c notready` (the caller gives up and drops its clone; the generator retries later under a fresh
//! caller id); `Ready(Err(e))` -> `result c <rendered error>` (`err:inner9:0` for the scripted readiness error). In the
//! last two cases no call is made.
//!
//! No observed choices: since the repair "time limiter without cancellation prefers a finished
//! inner call over the timeout" the non-cancel `select!` is biased (oneshot first), so the layer
//! is deterministic under the harness and the model takes no `@…` input.
use crate::world::*;
use std::collections::HashMap;
use std::sync::{Arc, Mutex};
use std::time::Duration;
use tower::{Layer, Service};
use tower_resilience_timelimiter::{
    DynamicTimeout, FixedTimeout, TimeLimiter, TimeLimiterConfigBuilder, TimeLimiterError, TimeLimiterLayer,
};

type DynFn = Box<dyn Fn(&Req) -> Duration + Send + Sync>;

enum Svc {
    Fixed(TimeLimiter<Inner, FixedTimeout>),
    Dyn(TimeLimiter<Inner, DynamicTimeout<DynFn>>),
}

/// the builder between two setter calls: its type depends on the last timeout setter
enum Builder {
    Fixed(TimeLimiterConfigBuilder<FixedTimeout>),
    Dyn(TimeLimiterConfigBuilder<DynamicTimeout<DynFn>>),
}

/// `<ms>` or `max` (= `Duration::MAX`)
fn tmo(s: &str) -> Option<Duration> {
    if s == "max" {
        Some(Duration::MAX)
    } else if !s.is_empty() && s.bytes().all(|x| x.is_ascii_digit()) {
        s.parse::<u64>().ok().map(Duration::from_millis)
    } else {
        None
    }
}

type PerReq = Arc<Mutex<HashMap<usize, Duration>>>;

fn extractor(table: &PerReq, dflt: Duration) -> DynFn {
    let table = table.clone();
    Box::new(move |req: &Req| table.lock().unwrap().get(&req.c).cloned().unwrap_or(dflt))
}

/// apply the setters of `chain` in order through the public builder API
fn build_chain(chain: &str, table: &PerReq, inner: Inner) -> Svc {
    let mut b = Builder::Fixed(TimeLimiterLayer::builder());
    for item in chain.split(',') {
        let (head, arg) = if item.is_char_boundary(item.len().min(1)) { item.split_at(item.len().min(1)) } else { ("", "") };
        let num = if arg.bytes().all(|x| x.is_ascii_digit()) { arg.parse::<u64>().ok() } else { None };
        let dur = tmo(arg);
        b = match (head, dur, num, b) {
            ("d", Some(d), _, Builder::Fixed(x)) => Builder::Fixed(x.timeout_duration(d)),
            ("d", Some(d), _, Builder::Dyn(x)) => Builder::Fixed(x.timeout_duration(d)),
            ("f", Some(d), _, Builder::Fixed(x)) => Builder::Dyn(x.timeout_fn(extractor(table, d))),
            ("f", Some(d), _, Builder::Dyn(x)) => Builder::Dyn(x.timeout_fn(extractor(table, d))),
            ("c", _, Some(v), Builder::Fixed(x)) if v <= 1 => Builder::Fixed(x.cancel_running_future(v == 1)),
            ("c", _, Some(v), Builder::Dyn(x)) if v <= 1 => Builder::Dyn(x.cancel_running_future(v == 1)),
            (_, _, _, b) => b,
        };
    }
    match b {
        Builder::Fixed(x) => Svc::Fixed(x.build().layer(inner)),
        Builder::Dyn(x) => Svc::Dyn(x.build().layer(inner)),
    }
}

/// the wrapped service: `Inner::tied()`, with the readiness behaviour the header asks for (`ready=`, `rec=`, `recall=`)
fn wrapped(kv: &Kv) -> Inner {
    if kv.get("ready").is_none() && kv.get("rec").is_none() {
        return Inner::tied();
    }
    let i = Inner::strict_rec(kv.get("ready").unwrap_or(""), kv.u64("rec", 0), kv.u64("recall", 0) == 1);
    {
        let mut sh = i.shared.lock().unwrap();
        sh.tied = true;
        sh.handles = 1;
    }
    i
}

pub struct Adapter {
    /// `None` once `manual dropsvc` has dropped it
    svc: Option<Svc>,
    /// per-request timeout carried "in the request": caller id -> timeout (the request type of the
    /// harness has no such field, so the extractor closure looks it up by the request's caller id)
    per_req: PerReq,
}

impl Adapter {
    pub fn new(kv: &Kv) -> Adapter {
        let timeout = kv.get("timeout").and_then(tmo).unwrap_or(Duration::from_millis(5000));
        let cancel = kv.u64("cancel", 1) != 0;
        let dynamic = kv.u64("dyn", 0) != 0;
        let per_req: PerReq = Arc::new(Mutex::new(HashMap::new()));
        let inner = wrapped(kv);
        let svc = if let Some(chain) = kv.get("chain") {
            build_chain(chain, &per_req, inner)
        } else if dynamic {
            let f = extractor(&per_req, timeout);
            let layer = TimeLimiterLayer::builder().timeout_fn(f).cancel_running_future(cancel).build();
            Svc::Dyn(layer.layer(inner))
        } else {
            let layer = TimeLimiterLayer::builder().timeout_duration(timeout).cancel_running_future(cancel).build();
            Svc::Fixed(layer.layer(inner))
        };
        Adapter { svc: Some(svc), per_req }
    }
}

pub fn render(r: &Result<Resp, TimeLimiterError<IErr>>) -> String {
    match r {
        Ok(x) => format!("ok:{}", x.v),
        Err(TimeLimiterError::Inner(e)) => format!("err:inner{}:{}", e.kind, e.v),
        Err(TimeLimiterError::Timeout) => "err:timeout".into(),
    }
}

fn start<S>(svc: &S, c: usize, req: Req) -> Option<CallFut>
where
    S: Service<Req, Response = Resp, Error = TimeLimiterError<IErr>> + Clone,
    S::Future: 'static,
{
    let mut svc = svc.clone();
    // what a Tower caller does: `poll_ready` first; anything but `Ready(Ok)` and no call is made
    match poll_ready_once(&mut svc) {
        std::task::Poll::Ready(Ok(())) => {}
        std::task::Poll::Ready(Err(e)) => {
            log(format!("result {} {}", c, render(&Err(e))));
            return None;
        }
        std::task::Poll::Pending => {
            log(format!("result {} notready", c));
            return None;
        }
    }
    let fut = svc.call(req);
    Some(held(fut, |r| render(&r)))
}

impl Mw for Adapter {
    fn arrive(&mut self, c: usize, kv: &Kv) -> Option<CallFut> {
        let Some(svc) = self.svc.as_ref() else {
            log_raw("noop".into());
            return None;
        };
        if let Some(d) = kv.get("timeout").and_then(tmo) {
            self.per_req.lock().unwrap().insert(c, d);
        }
        let req = Req::new(c, kv);
        match svc {
            Svc::Fixed(s) => start(s, c, req),
            Svc::Dyn(s) => start(s, c, req),
        }
    }
    fn manual(&mut self, what: &str, _kv: &Kv) {
        if what == "dropsvc" && self.svc.is_some() {
            log_raw(format!("#dropsvc {}", now_ms()));
            self.svc = None;
        }
    }
    /// non-cancel mode spawns the inner call: let the task run (and its completion propagate)
    fn yields(&self) -> usize {
        3
    }
}
