//! C17: the real `FallbackLayer` (built through its public builder, its shortcut constructors or the `Default`
//! builder) over the scripted inner service — alone, or with a second `FallbackLayer` stacked on top.
//!
//! header: `fallback strategy=<value|value_fn|from_error|from_request_error|service|exception>
//!          [handle=<bit mask over error kinds>] val=<n> [ready=<script>] [bready=<script>]
//!          [via=<builder|short|default>] [upper=<strategy> [uhandle=<mask>] [uval=<n>] [uvia=…]]
//!          [chain=<setter>.<setter>.…]`
//!          `ready=`: the wrapped service answers successive `poll_ready` calls (on any clone) from
//!          the script ('r' ready, 'p' pending, 'e' error `IErr{9,0}`; ready once exhausted) —
//!          `Inner::strict`; `bready=`: the same for the backup service of the service strategy,
//!          whose closure is then `|req| async move { backup.ready().await?.call(req).await }` (the
//!          layer itself cannot poll the backup's readiness: it only has a `Fn(Req) -> Future`);
//!          without `bready=` the closure is `|req| backup.call(req)`: the call is made in its
//!          synchronous part.
//!          `via=short`: the layer is built with the shortcut constructor of the strategy
//!          (`FallbackLayer::value(v)`, `::value_fn(f)`, …; only without a predicate — a shortcut has none);
//!          `via=default`: through `FallbackConfigBuilder::default()` instead of `FallbackLayer::builder()`.
//!          `upper=`: a second fallback layer wraps the first; its error type is `FallbackError<IErr>`; its
//!          test functions are the lower layer's read through the encoding `Inner(e)` -> kind `2·e.kind`,
//!          `FallbackFailed(e)` -> kind `2·e.kind+1` (so a predicate mask addresses (variant, kind) and every
//!          function logs which variant it was handed); they log `upredicate …` / `ustrategy …`. Every strategy
//!          but the backup service (`upper=service` is ignored).
//!          `chain=`: the layer is built by exactly this sequence of builder calls (instead of `strategy=` / `handle=` /
//!          `order=`, which are then ignored): a strategy setter `value[:<n>]`, `value_fn[:<n>]` (n instead of `val`),
//!          `from_error`, `from_request_error`, `service`, `exception`; `h<mask>` = `.handle(<mask predicate>)`; `n` =
//!          `.name(..)`. Any number of each, in any order (a chain without a strategy setter is ignored: `build()`
//!          would panic). Each setter gets its own closure (an own counter for every `value_fn`).
//! arrive: `arrive <c> tag=<t> inner=<lat>:<out>[,<lat>:<out> for the backup call] [post=<steps>] [svc=<k>] [reuse=1] [gen=<g>]`
//!          The request type (`GReq`) has an OBSERVABLE `Clone`: it carries a generation counter that `clone()` bumps
//!          (a copy is marked as a copy: an attempt counter, a replay flag, a one-shot body that a copy does not have).
//!          `gen=<g>`: the generation of the request the caller submits (default 0: an original; g > 0: the caller
//!          itself submits a copy, e.g. a retry's). Everything that is handed a request logs which generation it
//!          got: `reqgen inner <c> <g>` (the wrapped service, right before its `inner_call` line), `reqgen backup <c> <g>`
//!          (the backup closure, right before the backup call), `reqgen from_request_error <c> <g>` /
//!          `reqgen ufrom_request_error <c> <g>` (the lower / upper layer's function, right before its `strategy` line).
//!          the caller clones the service and polls it ready ONCE: pending -> `result c notready`
//!          (it gives up), error -> `resp`/`result` lines with that error rendered like a call error
//!          (so a transformed or otherwise handled readiness error is visible), ready -> the call.
//!          `svc=<k>`: the call goes to service k; services are built lazily from the ONE layer value (even k) or
//!          from a clone of it taken at that moment (odd k), each around a clone of the scripted inner service.
//!          `reuse=1`: `poll_ready` and `call` are made on the long-lived handle itself, not on a clone of it
//!          (`h.call(); h.call()`).
//!          `post=<steps>`: what the caller does with an `Err(FallbackError)` before looking at it, one letter per
//!          step: `c` replaces it by its `clone()`, `v` logs what `is_inner()`, `is_fallback_failed()`, `inner()`
//!          and `into_inner()` report (`view c <is_inner> <is_failed> <ref kind> <ref v> <into kind> <into v>`),
//!          `m` converts the payload with the crate's own `FallbackError::map` (`map_err(|e| e.map(AppErr::from))`,
//!          `AppErr::from` = kind + 100).
//! manual: `manual dropsvc` — the caller drops every handle it holds: every service, (every per-call clone is
//!          a temporary of `arrive` already) and the layers, while call futures may be in flight
//!          (`svc.oneshot(req)`; `let f = svc.call(req); drop(svc); f.await`). Later `arrive`s are
//!          answered `noop`: there is nothing left to make a call on.
//! probe:  `probe strategy c= tag= kind= v=` — a `FallbackStrategy` value of the header's strategy built by hand,
//!          CLONED, the clone applied to the sample request and error.
//!
//! The user-supplied functions are fixed test functions with distinguishable results (the same
//! ones as in `TR.Model.Fallback`); each invocation is logged (they are calls into user code,
//! like the inner call). The backup service is a second scripted service with label `b`.
use crate::world::*;
use std::collections::BTreeMap;
use std::sync::atomic::{AtomicU64, Ordering};
use std::sync::Arc;
use tower::{Layer, Service};
use tower_resilience_fallback::{Fallback, FallbackConfigBuilder, FallbackError, FallbackLayer, FallbackStrategy};

/// the error type of the lower layer = the inner error type of the upper layer
type MidErr = FallbackError<IErr>;
type LowLayer = FallbackLayer<GReq, Resp, IErr>;
type UpLayer = FallbackLayer<GReq, Resp, MidErr>;
type Low = Fallback<GInner, GReq, Resp, IErr>;
type Up = Fallback<Low, GReq, Resp, MidErr>;

/// A request whose copies can be told from the original: `clone()` bumps the generation.
#[derive(Debug)]
struct GReq {
    req: Req,
    gen: u64,
}
impl Clone for GReq {
    fn clone(&self) -> GReq {
        GReq { req: self.req.clone(), gen: self.gen + 1 }
    }
}
impl GReq {
    fn new(c: usize, kv: &Kv) -> GReq {
        GReq { req: Req::new(c, kv), gen: kv.u64("gen", 0) }
    }
    /// whoever is handed a request logs which generation it got
    fn seen_by(&self, who: &str) {
        log(format!("reqgen {} {} {}", who, self.req.c, self.gen));
    }
}

/// The scripted inner service behind the generation-carrying request type: logs the generation it is handed, then
/// the plain scripted service does the rest (readiness, clones and drops are the scripted service's own).
#[derive(Clone)]
struct GInner(Inner);
impl Service<GReq> for GInner {
    type Response = Resp;
    type Error = IErr;
    type Future = <Inner as Service<Req>>::Future;
    fn poll_ready(&mut self, cx: &mut std::task::Context<'_>) -> std::task::Poll<Result<(), IErr>> {
        self.0.poll_ready(cx)
    }
    fn call(&mut self, rq: GReq) -> Self::Future {
        rq.seen_by("inner");
        self.0.call(rq.req)
    }
}

/// an error payload as (kind, v)
trait Pay: Clone + 'static {
    fn kv(&self) -> (u64, u64);
}
impl Pay for IErr {
    fn kv(&self) -> (u64, u64) {
        (self.kind as u64, self.v)
    }
}
/// the lower layer's error as the upper layer's test functions (and the rendering of the upper layer's result) read it
impl Pay for MidErr {
    fn kv(&self) -> (u64, u64) {
        match self {
            FallbackError::Inner(e) => (2 * e.kind as u64, e.v),
            FallbackError::FallbackFailed(e) => (2 * e.kind as u64 + 1, e.v),
        }
    }
}
/// the application's error type a caller converts payloads into
#[derive(Clone, Debug)]
struct AppErr {
    kind: u64,
    v: u64,
}
impl Pay for AppErr {
    fn kv(&self) -> (u64, u64) {
        (self.kind, self.v)
    }
}
/// `AppErr::from`
fn app_err<E: Pay>(e: E) -> AppErr {
    let (k, v) = e.kv();
    AppErr { kind: k + 100, v }
}

enum Via {
    Builder,
    Short,
    Default,
}
fn via_of(s: Option<&str>) -> Via {
    match s {
        Some("short") => Via::Short,
        Some("default") => Via::Default,
        _ => Via::Builder,
    }
}

const STRATEGY_SETTERS: [&str; 6] = ["value", "value_fn", "from_error", "from_request_error", "service", "exception"];

/// `chain=<setter>.<setter>.…` as (setter, argument): `value:7` -> ("value", 7), `h6` -> ("h", 6), `n` -> ("n", -);
/// `None` without the key or without a strategy setter in it
fn chain_of(kv: &Kv) -> Option<Vec<(String, Option<u64>)>> {
    let mut out = Vec::new();
    for tok in kv.get("chain")?.split('.') {
        let (name, arg) = match tok.split_once(':') {
            Some((n, a)) => (n, a.parse::<u64>().ok()),
            None => (tok, None),
        };
        if STRATEGY_SETTERS.contains(&name) {
            out.push((name.to_string(), arg));
        } else if name == "n" {
            out.push(("n".to_string(), None));
        } else if let Some(m) = name.strip_prefix('h').and_then(|m| m.parse::<u64>().ok()) {
            out.push(("h".to_string(), Some(m)));
        }
    }
    if out.iter().any(|(n, _)| STRATEGY_SETTERS.contains(&n.as_str())) {
        Some(out)
    } else {
        None
    }
}

/// the strategy a `probe strategy` builds by hand: the header's — after a chain, the one named last
fn strategy_in_force(kv: &Kv) -> (String, u64) {
    let val = kv.u64("val", 0);
    match chain_of(kv) {
        Some(chain) => {
            let (n, a) = chain.iter().rev().find(|(n, _)| STRATEGY_SETTERS.contains(&n.as_str())).cloned().unwrap();
            (n, a.unwrap_or(val))
        }
        None => (kv.str("strategy", "value"), val),
    }
}

fn build_lower(kv: &Kv) -> LowLayer {
    let val = kv.u64("val", 0);
    type B = FallbackConfigBuilder<GReq, Resp, IErr>;
    let strategy_name = kv.str("strategy", "value");
    let bready = kv.get("bready").map(|x| x.to_string());
    let handle_mask = kv.opt_u64("handle");
    // the test functions
    let value = Resp { v: val, c: 0, tag: 0 };
    let mk_value_fn = |val: u64| {
        let n = Arc::new(AtomicU64::new(0));
        move || {
            let i = n.fetch_add(1, Ordering::SeqCst);
            log(format!("strategy value_fn {}", i));
            Resp { v: val + i, c: 0, tag: 1 }
        }
    };
    let value_fn = mk_value_fn(val);
    let from_error = |e: &IErr| {
        log(format!("strategy from_error {} {}", e.kind, e.v));
        Resp { v: e.v, c: 0, tag: e.kind as u64 }
    };
    let from_request_error = |rq: &GReq, e: &IErr| {
        rq.seen_by("from_request_error");
        let rq = &rq.req;
        log(format!("strategy from_request_error {} {} {} {}", rq.c, rq.tag, e.kind, e.v));
        Resp { v: e.v, c: rq.c, tag: rq.tag * 100 + e.kind as u64 }
    };
    let exception = |e: IErr| {
        log(format!("strategy exception {} {}", e.kind, e.v));
        IErr { kind: e.kind.wrapping_add(10), v: e.v }
    };
    // without a readiness script: the backup call is made in the synchronous part of the closure
    // (`|req| client.call(req)`), so WHEN the layer invokes the closure is visible in the log
    let backup_plain = {
        let backup = Inner::labelled("b");
        move |rq: GReq| {
            let mut s = backup.clone();
            rq.seen_by("backup");
            s.call(rq.req)
        }
    };
    // with one: `|req| async move { client.ready().await?.call(req).await }`
    let backup_scripted = {
        let mut backup = Inner::strict(bready.as_deref().unwrap_or(""));
        backup.label = "b";
        move |rq: GReq| {
            let mut s = backup.clone();
            async move {
                std::future::poll_fn(|cx| s.poll_ready(cx)).await?;
                rq.seen_by("backup");
                s.call(rq.req).await
            }
        }
    };
    let via = via_of(kv.get("via"));
    let mask_pred = |mask: u64| {
        move |e: &IErr| {
            let r = e.kind < 64 && (mask >> e.kind) & 1 == 1;
            log(format!("predicate {} {} {}", e.kind, e.v, r as u8));
            r
        }
    };
    if let Some(chain) = chain_of(kv) {
        // the builder calls of the header's chain, one by one, in that order
        let mut b = match via {
            Via::Default => B::default(),
            _ => LowLayer::builder(),
        };
        for (name, arg) in chain {
            b = match name.as_str() {
                "value" => b.value(Resp { v: arg.unwrap_or(val), c: 0, tag: 0 }),
                "value_fn" => b.value_fn(mk_value_fn(arg.unwrap_or(val))),
                "from_error" => b.from_error(from_error),
                "from_request_error" => b.from_request_error(from_request_error),
                "service" if bready.is_none() => b.service(backup_plain.clone()),
                "service" => b.service(backup_scripted.clone()),
                "exception" => b.exception(exception),
                "h" => b.handle(mask_pred(arg.unwrap_or(0))),
                _ => b.name("verif"),
            };
        }
        return b.build();
    }
    if let (Via::Short, None) = (&via, handle_mask) {
        // the shortcut constructors (layer.rs:45-152): the strategy and nothing else
        return match strategy_name.as_str() {
            "value_fn" => LowLayer::value_fn(value_fn),
            "from_error" => LowLayer::from_error(from_error),
            "from_request_error" => LowLayer::from_request_error(from_request_error),
            "service" if bready.is_none() => LowLayer::service(backup_plain),
            "service" => LowLayer::service(backup_scripted),
            "exception" => LowLayer::exception(exception),
            _ => LowLayer::value(value),
        };
    }
    let strategy = move |b: B| -> B {
        match strategy_name.as_str() {
            "value_fn" => b.value_fn(value_fn),
            "from_error" => b.from_error(from_error),
            "from_request_error" => b.from_request_error(from_request_error),
            "service" if bready.is_none() => b.service(backup_plain),
            "service" => b.service(backup_scripted),
            "exception" => b.exception(exception),
            _ => b.value(value),
        }
    };
    let handle = move |b: B| -> B {
        match handle_mask {
            Some(mask) => b.handle(mask_pred(mask)),
            None => b,
        }
    };
    // `order=1`: the handle predicate is configured BEFORE the strategy (builder calls commute)
    let b = match via {
        Via::Default => B::default(),
        _ => LowLayer::builder(),
    }
    .name("verif");
    let b = if kv.u64("order", 0) == 1 { strategy(handle(b)) } else { handle(strategy(b)) };
    b.build()
}

/// The upper layer of a stack (`upper=<strategy>`): the lower layer's test functions over the encoded error.
/// Every function takes the error apart by pattern matching (`Pay for MidErr`), so what it logs is the variant
/// it was really handed.
fn build_upper(kv: &Kv) -> Option<UpLayer> {
    let name = kv.get("upper")?.to_string();
    if name == "service" {
        return None;
    }
    let val = kv.u64("uval", 0);
    type B = FallbackConfigBuilder<GReq, Resp, MidErr>;
    let mask = kv.opt_u64("uhandle");
    let value = Resp { v: val, c: 0, tag: 0 };
    let value_fn = {
        let n = Arc::new(AtomicU64::new(0));
        move || {
            let i = n.fetch_add(1, Ordering::SeqCst);
            log(format!("ustrategy value_fn {}", i));
            Resp { v: val + i, c: 0, tag: 1 }
        }
    };
    let from_error = |e: &MidErr| {
        let (k, v) = e.kv();
        log(format!("ustrategy from_error {} {}", k, v));
        Resp { v, c: 0, tag: k }
    };
    let from_request_error = |rq: &GReq, e: &MidErr| {
        rq.seen_by("ufrom_request_error");
        let rq = &rq.req;
        let (k, v) = e.kv();
        log(format!("ustrategy from_request_error {} {} {} {}", rq.c, rq.tag, k, v));
        Resp { v, c: rq.c, tag: rq.tag * 100 + k }
    };
    // encoded kind + 10 = the same variant, kind + 5
    let exception = |e: MidErr| {
        let (k, v) = e.kv();
        log(format!("ustrategy exception {} {}", k, v));
        match e {
            FallbackError::Inner(x) => FallbackError::Inner(IErr { kind: x.kind.wrapping_add(5), v: x.v }),
            FallbackError::FallbackFailed(x) => FallbackError::FallbackFailed(IErr { kind: x.kind.wrapping_add(5), v: x.v }),
        }
    };
    if let (Via::Short, None) = (via_of(kv.get("uvia")), mask) {
        return Some(match name.as_str() {
            "value_fn" => UpLayer::value_fn(value_fn),
            "from_error" => UpLayer::from_error(from_error),
            "from_request_error" => UpLayer::from_request_error(from_request_error),
            "exception" => UpLayer::exception(exception),
            _ => UpLayer::value(value),
        });
    }
    let b = match via_of(kv.get("uvia")) {
        Via::Default => B::default(),
        _ => UpLayer::builder(),
    }
    .name("verif-upper");
    let b = match name.as_str() {
        "value_fn" => b.value_fn(value_fn),
        "from_error" => b.from_error(from_error),
        "from_request_error" => b.from_request_error(from_request_error),
        "exception" => b.exception(exception),
        _ => b.value(value),
    };
    let b = match mask {
        Some(mask) => b.handle(move |e: &MidErr| {
            let (k, v) = e.kv();
            let r = k < 64 && (mask >> k) & 1 == 1;
            log(format!("upredicate {} {} {}", k, v, r as u8));
            r
        }),
        None => b,
    };
    Some(b.build())
}

/// The transformation of a hand-built `FallbackStrategy::Exception` (for `probe strategy`). The function type of that
/// variant is public API but whether it takes the error by value or by reference is a detail a refactor may change
/// without changing any behaviour: the harness builds against either.
trait ProbeExc {
    fn make() -> Self;
    fn apply(&self, e: IErr) -> IErr;
}
impl ProbeExc for Arc<dyn Fn(IErr) -> IErr + Send + Sync> {
    fn make() -> Self {
        Arc::new(|e: IErr| IErr { kind: e.kind.wrapping_add(10), v: e.v })
    }
    fn apply(&self, e: IErr) -> IErr {
        self(e)
    }
}
impl ProbeExc for Arc<dyn Fn(&IErr) -> IErr + Send + Sync> {
    fn make() -> Self {
        Arc::new(|e: &IErr| IErr { kind: e.kind.wrapping_add(10), v: e.v })
    }
    fn apply(&self, e: IErr) -> IErr {
        self(&e)
    }
}

enum Svc {
    One(Low),
    Two(Up),
}

pub struct Adapter {
    /// the layers are kept (not temporaries of the builder statement) so that without `manual dropsvc`
    /// every kind of handle stays alive for the whole case, and with it every kind is dropped
    layer: Option<LowLayer>,
    upper: Option<UpLayer>,
    /// the scripted inner service every service is built around (a clone each: they share the readiness script)
    inner: Option<Inner>,
    /// the services built so far from the one layer value (`svc=<k>`)
    svcs: BTreeMap<u64, Svc>,
    gone: bool,
    kv: Kv,
}

impl Adapter {
    pub fn new(kv: &Kv) -> Adapter {
        let layer = build_lower(kv);
        let upper = build_upper(kv);
        let inner = match kv.get("ready") {
            Some(script) => Inner::strict(script),
            None => Inner::new(),
        };
        let mut a = Adapter { layer: Some(layer), upper, inner: Some(inner), svcs: BTreeMap::new(), gone: false, kv: kv.clone() };
        a.service(0);
        a
    }
    /// service k, built on first use from the layer value (even k) or from a clone of it taken now (odd k)
    fn service(&mut self, k: u64) -> Option<&mut Svc> {
        if self.gone {
            return None;
        }
        if !self.svcs.contains_key(&k) {
            let inner = self.inner.as_ref()?.clone();
            let layer = self.layer.as_ref()?;
            let low = if k % 2 == 1 { layer.clone().layer(GInner(inner)) } else { layer.layer(GInner(inner)) };
            let svc = match self.upper.as_ref() {
                None => Svc::One(low),
                Some(u) => Svc::Two(if k % 2 == 1 { u.clone().layer(low) } else { u.layer(low) }),
            };
            self.svcs.insert(k, svc);
        }
        self.svcs.get_mut(&k)
    }
}

fn detail_err<E: Pay>(e: &FallbackError<E>) -> String {
    match e {
        FallbackError::Inner(e) => format!("inner {} {}", e.kv().0, e.kv().1),
        FallbackError::FallbackFailed(e) => format!("fallback_failed {} {}", e.kv().0, e.kv().1),
    }
}
fn render_err<E: Pay>(e: &FallbackError<E>) -> String {
    match e {
        FallbackError::Inner(e) => format!("err:inner{}:{}", e.kv().0, e.kv().1),
        // inner and backup both failed; carries the backup's error (common variant `all_failed`)
        FallbackError::FallbackFailed(e) => format!("err:all_failed:inner{}:{}", e.kv().0, e.kv().1),
    }
}

/// The caller's post-processing of an error result (`post=`), then the two renderings of what it finally holds:
/// the full payload (`resp` line) and the common result grammar.
fn post_err<E: Pay>(c: usize, mut e: FallbackError<E>, steps: &[u8]) -> (String, String) {
    for (i, st) in steps.iter().enumerate() {
        match st {
            b'c' => {
                // the clone replaces the original
                let d = e.clone();
                e = d;
            }
            b'v' => {
                let (a, b) = (e.is_inner(), e.is_fallback_failed());
                let r = e.inner().kv();
                // `into_inner` consumes the error: it is put together again as the variant it was (by pattern)
                let failed = matches!(e, FallbackError::FallbackFailed(_));
                let p = e.into_inner();
                let q = p.kv();
                log(format!("view {} {} {} {} {} {} {}", c, a as u8, b as u8, r.0, r.1, q.0, q.1));
                e = if failed { FallbackError::FallbackFailed(p) } else { FallbackError::Inner(p) };
            }
            b'm' => {
                // `map_err(|e| e.map(AppErr::from))`: the payload type changes, the rest of the steps run on the new type
                return post_err::<AppErr>(c, e.map(app_err::<E>), &steps[i + 1..]);
            }
            _ => {}
        }
    }
    (detail_err(&e), render_err(&e))
}

/// one request on one service handle, the way a caller makes it
fn make_call<S, E>(handle: &mut S, reuse: bool, c: usize, kv: &Kv) -> Option<CallFut>
where
    S: Service<GReq, Response = Resp, Error = FallbackError<E>> + Clone,
    S::Future: 'static,
    E: Pay,
{
    let post: Vec<u8> = kv.str("post", "").into_bytes();
    let req = GReq::new(c, kv);
    // by default the call is made on a clone that is dropped as soon as the response future exists;
    // `reuse=1`: on the long-lived handle itself
    let mut tmp = if reuse { None } else { Some(handle.clone()) };
    let svc: &mut S = match tmp.as_mut() {
        Some(t) => t,
        None => handle,
    };
    match poll_ready_once(svc) {
        std::task::Poll::Ready(Ok(())) => {}
        std::task::Poll::Pending => {
            log(format!("result {} notready", c));
            return None;
        }
        std::task::Poll::Ready(Err(e)) => {
            // what `poll_ready` returned, through the same post-processing and rendering as the result of a call
            let (d, r) = post_err(c, e, &post);
            log(format!("resp {} {}", c, d));
            log(format!("result {} {}", c, r));
            return None;
        }
    }
    let fut = svc.call(req);
    drop(tmp);
    Some(Box::pin(async move {
        match fut.await {
            Ok(x) => {
                log(format!("resp {} ok {} {} {}", c, x.v, x.c, x.tag));
                format!("ok:{}", x.v)
            }
            Err(e) => {
                let (d, r) = post_err(c, e, &post);
                log(format!("resp {} {}", c, d));
                r
            }
        }
    }))
}

impl Mw for Adapter {
    fn arrive(&mut self, c: usize, kv: &Kv) -> Option<CallFut> {
        let reuse = kv.u64("reuse", 0) == 1;
        match self.service(kv.u64("svc", 0)) {
            None => {
                log("noop".into());
                None
            }
            Some(Svc::One(s)) => make_call(s, reuse, c, kv),
            Some(Svc::Two(s)) => make_call(s, reuse, c, kv),
        }
    }
    fn manual(&mut self, what: &str, _kv: &Kv) {
        if what == "dropsvc" {
            log_raw(format!("#dropsvc {}", now_ms()));
            self.svcs.clear();
            self.layer = None;
            self.upper = None;
            self.inner = None;
            self.gone = true;
        }
    }
    fn probe(&mut self, what: &str, kv: &Kv) {
        if what != "strategy" {
            return;
        }
        // a strategy value built by hand (the variants and the function types are public), cloned; the CLONE is used
        let (name, val) = strategy_in_force(&self.kv);
        let original: FallbackStrategy<GReq, Resp, IErr> = match name.as_str() {
            "value_fn" => FallbackStrategy::ValueFn(Arc::new(move || Resp { v: val, c: 0, tag: 1 })),
            "from_error" => FallbackStrategy::FromError(Arc::new(|e: &IErr| Resp { v: e.v, c: 0, tag: e.kind as u64 })),
            "from_request_error" => FallbackStrategy::FromRequestError(Arc::new(|rq: &GReq, e: &IErr| Resp {
                v: e.v,
                c: rq.req.c,
                tag: rq.req.tag * 100 + e.kind as u64,
            })),
            "service" => FallbackStrategy::Service(Arc::new(|rq: GReq| {
                Box::pin(std::future::ready(Ok::<Resp, IErr>(Resp { v: rq.req.tag, c: rq.req.c, tag: rq.req.tag })))
            })),
            "exception" => FallbackStrategy::Exception(ProbeExc::make()),
            _ => FallbackStrategy::Value(Resp { v: val, c: 0, tag: 0 }),
        };
        let copy = original.clone();
        drop(original);
        let rq = GReq::new(kv.u64("c", 0) as usize, kv);
        let e = IErr { kind: kv.u64("kind", 0) as u8, v: kv.u64("v", 0) };
        let ok = |r: Resp| format!("ok {} {} {}", r.v, r.c, r.tag);
        let (variant, out) = match copy {
            FallbackStrategy::Value(v) => ("value", ok(v)),
            FallbackStrategy::ValueFn(f) => ("value_fn", ok(f())),
            FallbackStrategy::FromError(f) => ("from_error", ok(f(&e))),
            FallbackStrategy::FromRequestError(f) => ("from_request_error", ok(f(&rq, &e))),
            FallbackStrategy::Service(s) => {
                let mut fut = s(rq);
                match noop_cx_poll(&mut fut) {
                    std::task::Poll::Ready(Ok(r)) => ("service", ok(r)),
                    std::task::Poll::Ready(Err(e)) => ("service", format!("inner {} {}", e.kind, e.v)),
                    std::task::Poll::Pending => ("service", "pending".to_string()),
                }
            }
            FallbackStrategy::Exception(t) => {
                let x = t.apply(e);
                ("exception", format!("inner {} {}", x.kind, x.v))
            }
        };
        log(format!("probe strategy {} {}", variant, out));
    }
}
