//! C17: the real `FallbackLayer` (built through its public builder) over the scripted inner service.
//!
//! header: `fallback strategy=<value|value_fn|from_error|from_request_error|service|exception>
//!          [handle=<bit mask over error kinds>] val=<n> [ready=<script>] [bready=<script>]`
//!          `ready=`: the wrapped service answers successive `poll_ready` calls (on any clone) from
//!          the script ('r' ready, 'p' pending, 'e' error `IErr{9,0}`; ready once exhausted) —
//!          `Inner::strict`; `bready=`: the same for the backup service of the service strategy,
//!          whose closure is then `|req| async move { backup.ready().await?.call(req).await }` (the
//!          layer itself cannot poll the backup's readiness: it only has a `Fn(Req) -> Future`);
//!          without `bready=` the closure is `|req| backup.call(req)`: the call is made in its
//!          synchronous part.
//! arrive: `arrive <c> tag=<t> inner=<lat>:<out>[,<lat>:<out> for the backup call]`
//!          the caller clones the service and polls it ready ONCE: pending -> `result c notready`
//!          (it gives up), error -> `resp`/`result` lines with that error rendered like a call error
//!          (so a transformed or otherwise handled readiness error is visible), ready -> the call.
//! manual: `manual dropsvc` — the caller drops every handle it holds: the service, (every clone is
//!          a temporary of `arrive` already) and the layer, while call futures may be in flight
//!          (`svc.oneshot(req)`; `let f = svc.call(req); drop(svc); f.await`). Later `arrive`s are
//!          answered `noop`: there is nothing left to make a call on.
//!
//! The user-supplied functions are fixed test functions with distinguishable results (the same
//! ones as in `TR.Model.Fallback`); each invocation is logged (they are calls into user code,
//! like the inner call). The backup service is a second scripted service with label `b`.
use crate::world::*;
use std::sync::atomic::{AtomicU64, Ordering};
use std::sync::Arc;
use tower::{Layer, Service};
use tower_resilience_fallback::{Fallback, FallbackError, FallbackLayer};

pub struct Adapter {
    /// the layer is kept (not a temporary of the builder statement) so that without `manual dropsvc`
    /// every kind of handle stays alive for the whole case, and with it every kind is dropped
    layer: Option<FallbackLayer<Req, Resp, IErr>>,
    svc: Option<Fallback<Inner, Req, Resp, IErr>>,
}

impl Adapter {
    pub fn new(kv: &Kv) -> Adapter {
        let val = kv.u64("val", 0);
        type B = tower_resilience_fallback::FallbackConfigBuilder<Req, Resp, IErr>;
        let strategy_name = kv.str("strategy", "value");
        let bready = kv.get("bready").map(|x| x.to_string());
        let strategy = move |b: B| -> B {
            match strategy_name.as_str() {
                "value_fn" => {
                    let n = Arc::new(AtomicU64::new(0));
                    b.value_fn(move || {
                        let i = n.fetch_add(1, Ordering::SeqCst);
                        log(format!("strategy value_fn {}", i));
                        Resp { v: val + i, c: 0, tag: 1 }
                    })
                }
                "from_error" => b.from_error(|e: &IErr| {
                    log(format!("strategy from_error {} {}", e.kind, e.v));
                    Resp { v: e.v, c: 0, tag: e.kind as u64 }
                }),
                "from_request_error" => b.from_request_error(|rq: &Req, e: &IErr| {
                    log(format!("strategy from_request_error {} {} {} {}", rq.c, rq.tag, e.kind, e.v));
                    Resp { v: e.v, c: rq.c, tag: rq.tag * 100 + e.kind as u64 }
                }),
                "service" => match &bready {
                    // without a readiness script: the backup call is made in the synchronous part of the closure
                    // (`|req| client.call(req)`), so WHEN the layer invokes the closure is visible in the log
                    None => {
                        let backup = Inner::labelled("b");
                        b.service(move |rq: Req| {
                            let mut s = backup.clone();
                            s.call(rq)
                        })
                    }
                    // with one: `|req| async move { client.ready().await?.call(req).await }`
                    Some(script) => {
                        let mut backup = Inner::strict(script);
                        backup.label = "b";
                        b.service(move |rq: Req| {
                            let mut s = backup.clone();
                            async move {
                                std::future::poll_fn(|cx| s.poll_ready(cx)).await?;
                                s.call(rq).await
                            }
                        })
                    }
                },
                "exception" => b.exception(|e: IErr| {
                    log(format!("strategy exception {} {}", e.kind, e.v));
                    IErr { kind: e.kind.wrapping_add(10), v: e.v }
                }),
                _ => b.value(Resp { v: val, c: 0, tag: 0 }),
            }
        };
        let handle_mask = kv.opt_u64("handle");
        let handle = move |b: B| -> B {
            match handle_mask {
                Some(mask) => b.handle(move |e: &IErr| {
                    let r = e.kind < 64 && (mask >> e.kind) & 1 == 1;
                    log(format!("predicate {} {} {}", e.kind, e.v, r as u8));
                    r
                }),
                None => b,
            }
        };
        // `order=1`: the handle predicate is configured BEFORE the strategy (builder calls commute)
        let b = FallbackLayer::<Req, Resp, IErr>::builder().name("verif");
        let b = if kv.u64("order", 0) == 1 { strategy(handle(b)) } else { handle(strategy(b)) };
        let layer = b.build();
        let inner = match kv.get("ready") {
            Some(script) => Inner::strict(script),
            None => Inner::new(),
        };
        let svc = layer.layer(inner);
        Adapter { layer: Some(layer), svc: Some(svc) }
    }
}

type Out = Result<Resp, FallbackError<IErr>>;

/// full payload of the result (compared line by line with the model's `resp` event)
fn detail(r: &Out) -> String {
    match r {
        Ok(x) => format!("ok {} {} {}", x.v, x.c, x.tag),
        Err(FallbackError::Inner(e)) => format!("inner {} {}", e.kind, e.v),
        Err(FallbackError::FallbackFailed(e)) => format!("fallback_failed {} {}", e.kind, e.v),
    }
}

pub fn render(r: Out) -> String {
    match r {
        Ok(x) => format!("ok:{}", x.v),
        Err(FallbackError::Inner(e)) => format!("err:inner{}:{}", e.kind, e.v),
        // inner and backup both failed; carries the backup's error (common variant `all_failed`)
        Err(FallbackError::FallbackFailed(e)) => format!("err:all_failed:inner{}:{}", e.kind, e.v),
    }
}

impl Mw for Adapter {
    fn arrive(&mut self, c: usize, kv: &Kv) -> Option<CallFut> {
        let Some(svc) = self.svc.as_ref() else {
            log("noop".into());
            return None;
        };
        // the call is made on a clone that is dropped as soon as the response future exists
        let mut svc = svc.clone();
        let req = Req::new(c, kv);
        match poll_ready_once(&mut svc) {
            std::task::Poll::Ready(Ok(())) => {}
            std::task::Poll::Pending => {
                log(format!("result {} notready", c));
                return None;
            }
            std::task::Poll::Ready(Err(e)) => {
                // what `poll_ready` returned, through the same rendering as the result of a call
                let r: Out = Err(e);
                log(format!("resp {} {}", c, detail(&r)));
                log(format!("result {} {}", c, render(r)));
                return None;
            }
        }
        let fut = svc.call(req);
        drop(svc);
        Some(Box::pin(async move {
            let r = fut.await;
            log(format!("resp {} {}", c, detail(&r)));
            render(r)
        }))
    }
    fn manual(&mut self, what: &str, _kv: &Kv) {
        if what == "dropsvc" {
            log_raw(format!("#dropsvc {}", now_ms()));
            self.svc = None;
            self.layer = None;
        }
    }
}
